"""C07 - Lime fits its surrogate on its own queries; KernelShap is exact on additive scores.

Implementation: xplique.attributions.Lime / KernelShap on a recording NumPy polynomial model, with
  * `pertub_func` wrapped in-process (logs the drawn binary samples),
  * `interpretable_model` wrapped by a recording proxy (logs what is handed to `fit`, and `coef_`),
  * for the top-k sampler: `tf.random.normal` / `tf.random.categorical` wrapped (log the draws) while
    the un-traced python function of `_kernel_shap_pertub_func` runs eagerly.
Model: Lean `Lime.fitData` (chunked loop), `LinReg.wlsFit` (checked exact solution of the ridge normal
equations), `Lime.kshapProbs`, `Lime.kshapSample`;  Spec: `Lime.specTriples`, `Lime.maskedSpec`,
`Lime.probSpec`, `Lime.shapleySeg`.
"""
import json
import math
import os
from fractions import Fraction

import numpy as np

from common import PolyModel, enc, fr, VERIF

RULE = ("cases = (method Lime|KernelShap, data kind tab|ts|img with H != W and C in {1,3}, identity / custom "
        "segment maps with unequal segments (per input, possibly different F per input, optional unused id), "
        "default / custom per-channel ref, F in 2..8, nb_samples in F+1..4F, distance mode, kernel width in "
        "{1,3,45}, ridge alpha, batch size over None and 1..nb+1, N in 1..3, additive / non-additive integer "
        "polynomial score) from a seeded generator; every case runs the real explainer with logging wrappers, "
        "compares the recorded queries / chunk sizes / fit arguments / coef_ / explanation with the Lean Impl "
        "model (same batch size) and evaluates the property predicates against the Lean Spec recomputed from "
        "the RECORDED queries; plus the coalition-size distribution for every F in 2..64 and the top-k "
        "thresholding on observed draws; distinct = descriptor hash; non-trivial = explanation not constant "
        "and at least one sample differs from the input")

WIDTHS = [1.0, 3.0, 45.0]
W_RTOL = 1e-4          # float32 exp / norm / division vs float64 exp of the exact D^2 (observed <= 4e-6)
C_RTOL = 1e-4          # sklearn solver on float32 weights vs exact solve on float64 weights
C_ATOL = 2e-5          # (observed absolute deviation <= 5e-6 on O(1..30) coefficients)


class RecFit:
    """recording proxy around the interpretable model (wrapped, not replaced)"""

    def __init__(self, inner):
        self.inner = inner
        self.fits = []
        self.coefs = []

    def fit(self, X, y, sample_weight=None):
        self.fits.append((np.array(X).copy(), np.array(y).copy(),
                          None if sample_weight is None else np.array(sample_weight).copy()))
        self.inner.fit(X, y, sample_weight=sample_weight)
        self.coefs.append(np.array(self.inner.coef_, dtype=np.float64).copy())
        return self

    def predict(self, X):
        return self.inner.predict(X)

    @property
    def coef_(self):
        return self.inner.coef_


def cell_shape(d):
    s = d["shape"]
    return tuple(s) if d["kind"] != "img" else tuple(s[:2])


def build(d):
    """everything derived from the descriptor alone (reproducible)"""
    rng = np.random.default_rng(d["case_seed"])
    shape = tuple(d["shape"])
    n = d["N"]
    kind = d["kind"]
    c = shape[2] if kind == "img" else 1
    cells = int(np.prod(cell_shape(d)))
    nflat = cells * c
    additive = d["additive"]
    model = PolyModel(rng, nflat, nc=2, quad=0 if additive else 2, cub=0 if additive else (1 if nflat > 2 else 0))
    # reference value
    if d["ref"] == "default":
        ref = None
        refv = [0.5] * 3 if (kind == "img" and c == 3) else [0.0] * c
    else:
        refv = [float(v) for v in rng.choice([-1.0, 0.0, 0.5, 1.0, 2.0], size=c)]
        ref = np.array(refv, dtype=np.float32)
    # inputs: small integers, distinct from each other; never equal to the reference (so that the
    # coalition can be read back from a query); magnitude limited so that exp(-D^2/w^2) stays a
    # normal float32 for width 1
    big = d["width"] > 1.5 or d["mode"] == "cosine" or d["method"] == "kshap"
    vals = np.array([-3, -2, -1, 1, 2, 3, 4] if big else [-1, 0, 1, 2], dtype=np.float32)
    while True:
        x = rng.choice(vals, size=(n,) + shape).astype(np.float32)
        bad = np.zeros(x.shape, bool)
        for ch in range(c):
            sl = (Ellipsis, ch) if kind == "img" else (Ellipsis,)
            bad[sl] |= (x[sl] == refv[ch])
        x = np.where(bad, x + (1.0 if big else 0.5), x).astype(np.float32)
        if len({x[i].tobytes() for i in range(n)}) == n and all(np.any(x[i] != 0) for i in range(n)):
            break
    # large common offset of inputs and reference (a Euclidean distance between an input and its masked copy does not
    # depend on it; an implementation that expands ||x||^2 - 2<x,s> + ||s||^2 in float32 does)
    off = float(d.get("offset", 0) or 0)
    if off:
        x = (x + off).astype(np.float32)
        refv = [v + off for v in refv]
        ref = np.array(refv, dtype=np.float32)
    # kernel width actually used: exp(-D^2/w^2) must stay a normal float32 for every possible sample
    refflat = np.tile(np.array(refv, dtype=np.float64), cells)
    d2max = max(float(np.sum((x[i].reshape(-1).astype(np.float64) - refflat) ** 2)) for i in range(n))
    width = d["width"]
    if d["method"] == "lime" and d["mode"] == "euclidean":
        for wd in (d["width"], 3.0, 45.0):
            width = wd
            if wd >= d["width"] and d2max / (wd * wd) <= 60.0:
                break
    y = rng.integers(-2, 3, size=(n, 2)).astype(np.float32)
    for i in range(n):
        if not np.any(y[i]):
            y[i, 0] = 1.0
    # segment maps
    maps = []
    for i in range(n):
        if d["map"] == "identity":
            maps.append(np.arange(cells, dtype=np.int32))
        else:
            f = d["F"] if (i == 0 or not d.get("vary_F")) else int(rng.integers(2, min(cells, 8) + 1))
            f = min(f, cells)
            hole = int(rng.integers(0, f - 1)) if (d.get("unused_id") and f >= 3) else None
            allowed = [j for j in range(f) if j != hole]
            perm = rng.permutation(cells)
            m = np.zeros(cells, dtype=np.int32)
            m[perm[:len(allowed)]] = allowed                   # every allowed id is used (max id f-1 too)
            m[perm[len(allowed):]] = rng.choice(allowed, size=cells - len(allowed))
            maps.append(m)
    return dict(rng=rng, shape=shape, n=n, kind=kind, c=c, cells=cells, nflat=nflat, model=model,
                ref=ref, refv=refv, x=x, y=y, maps=maps, width=width)


def norms_of(sq):
    """float64 square roots of exact squared norms (the 'norms supplied as parameters')"""
    return [math.sqrt(float(s)) for s in sq]


def lean_data(ctx, b, d, i, samples, bs, extra=None):
    op = {"op": "lime_data", "c": b["c"], "ref": enc(b["refv"]), "mapping": [int(v) for v in b["maps"][i]],
          "x": enc(b["x"][i].reshape(-1)), "samples": enc(samples), "polys": b["model"].json(),
          "y": enc(b["y"][i]), "bs": bs, "nb": d["nb"]}
    if extra:
        op.update(extra)
    r = ctx.driver.call(op)
    if d["mode"] == "cosine" and d["method"] == "lime":
        op["norm_x"] = enc(math.sqrt(float(r["sqnorm_x"])))
        op["norms"] = enc(norms_of(r["sqnorms"]))
        r = ctx.driver.call(op)
    return r


def lean_rows(ctx, b, d, i, rows):
    op = {"op": "lime_rows", "x": enc(b["x"][i].reshape(-1)), "rows": enc(rows),
          "polys": b["model"].json(), "y": enc(b["y"][i])}
    r = ctx.driver.call(op)
    if d["mode"] == "cosine" and d["method"] == "lime":
        op["norm_x"] = enc(math.sqrt(float(r["sqnorm_x"])))
        op["norms"] = enc(norms_of(r["sqnorms"]))
        r = ctx.driver.call(op)
    return r


def kernel_weights(d2, width):
    return [math.exp(-float(v) / (width * width)) for v in d2]


def run_explainer(ctx, d):
    import tensorflow as tf
    from sklearn import linear_model
    from xplique.attributions import Lime, KernelShap
    b = build(d)
    n, x, y, model = b["n"], b["x"], b["y"], b["model"]
    tf.random.set_seed(d["case_seed"] % (1 << 30))
    cshape = cell_shape(d)

    mapfn = None
    if not (d["map"] == "identity" and d["kind"] != "img"):
        def mapfn(inp):
            a = inp.numpy()
            for i in range(n):
                if np.array_equal(a, x[i]):
                    return tf.constant(b["maps"][i].reshape(cshape), tf.int32)
            raise RuntimeError("map_to_interpret_space called with an unknown input")

    logged = []
    holder = {}

    def impl():
        if d["method"] == "lime":
            inner = linear_model.Ridge(alpha=d["alpha"]) if d["alpha"] > 0 else linear_model.LinearRegression()
            rec = RecFit(inner)
            expl = Lime(model, batch_size=d["bs"], interpretable_model=rec, map_to_interpret_space=mapfn,
                        ref_value=b["ref"], nb_samples=d["nb"], distance_mode=d["mode"],
                        kernel_width=b["width"], prob=0.5)
        else:
            expl = KernelShap(model, batch_size=d["bs"], map_to_interpret_space=mapfn, ref_value=b["ref"],
                              nb_samples=d["nb"])
            rec = RecFit(expl.interpretable_model)
            expl.interpretable_model = rec
        pf = expl.pertub_func

        def logging_pertub(num_features, nb_samples):
            s = pf(num_features, nb_samples)
            logged.append((int(np.array(num_features).reshape(-1)[0]), np.array(s).copy()))
            return s
        expl.pertub_func = logging_pertub
        holder["rec"] = rec
        model.record = True
        model.queries, model.calls = [], []
        return expl(x, y).numpy()

    ok, out = ctx.impl_call(d, impl)
    return b, ok, out, logged, holder.get("rec")


def run_case(ctx, d):
    if d["method"] == "probs":
        return run_probs(ctx, d)
    if d["method"] == "topk":
        return run_topk(ctx, d)
    b, ok, out, logged, rec = run_explainer(ctx, d)
    if not ok:
        ctx.case(d, False)
        return
    n, x, model = b["n"], b["x"], b["model"]
    nb, bs, width = d["nb"], d["bs"], b["width"]
    kshap = d["method"] == "kshap"
    exp_shape = (n,) + cell_shape(d) + ((1,) if d["kind"] == "img" else ())
    ctx.count("method", d["method"])
    ctx.count("kind", d["kind"] + (str(b["c"]) if d["kind"] == "img" else ""))
    ctx.count("map", d["map"] + ("+unused" if d.get("unused_id") else ""))
    ctx.count("ref", d["ref"])
    ctx.count("bs_vs_nb", "none" if bs is None else ("lt" if bs < nb else "ge"))
    if not kshap:
        ctx.count("mode_width", f"{d['mode']}/{width}")
    okshape = ctx.check_prop("shape", tuple(out.shape) == exp_shape, d, {"got": list(out.shape), "want": list(exp_shape)})
    ctx.check_prop("dtype", str(out.dtype) == "float32", d, {"dtype": str(out.dtype)})
    ok_log = ctx.check_prop("one-draw-and-one-fit-per-input", len(logged) == n and len(rec.fits) == n, d,
                            {"draws": len(logged), "fits": len(rec.fits)})
    if not (okshape and ok_log):
        ctx.case(d, False)
        return
    allq = np.concatenate(model.queries, 0) if model.queries else np.zeros((0, b["nflat"]))
    total = sum(len(s) for _, s in logged)
    if not ctx.check_prop("one-query-per-drawn-sample", len(allq) == total, d, {"queries": len(allq), "samples": total}):
        ctx.case(d, False)
        return
    if bs is not None:
        ctx.check_prop("calls_le_batch_size", max(model.calls) <= bs, d, {"max_call": max(model.calls), "bs": bs})
    pos = 0
    chunks_model = []
    nontrivial = False
    for i in range(n):
        nf_impl, samples = logged[i]
        mapping = b["maps"][i]
        F = int(mapping.max()) + 1
        xi = x[i].reshape(-1)
        ctx.count("F", F)
        ctx.check_prop("num-features", nf_impl == F and samples.shape == (nb, F), d,
                       {"num_features": nf_impl, "F": F, "samples_shape": list(samples.shape)})
        if samples.shape != (nb, F) or not np.isin(samples, (0, 1)).all():
            ctx.check_prop("samples-binary", False, d, {"shape": list(samples.shape)})
            continue
        rows_rec = allq[pos:pos + nb]
        pos += nb
        extra = None
        wadd = None
        if d["additive"]:
            wadd = sum(fr(b["y"][i][cc]) * np.array([Fraction(int(v)) for v in model.lin[cc]], dtype=object) for cc in range(2))
            extra = {"additive_w": enc(list(wadd))}
        r = lean_data(ctx, b, d, i, samples, bs, extra)
        chunks_model += [int(v) for v in r["chunks"]]
        fitX, fity, fitw = rec.fits[i]
        coef_impl = rec.coefs[i]
        # ---- correspondence: implementation vs Lean Impl (same batch size) ----------------------
        ctx.check_corr("lime_queries_model", rows_rec, r["rows"], d)
        ctx.check_corr("lime_fit_design_model", fitX, r["design"], d)
        ctx.check_corr("lime_fit_targets_model", fity, r["targets"], d)
        d2_model = r["d2"] if (kshap or d["mode"] == "euclidean") else r["cos_d2"]
        w_model = [1.0] * nb if kshap else kernel_weights(d2_model, width)
        ctx.check_corr("lime_fit_weights_model", fitw, [fr(v) for v in w_model], d, rtol=W_RTOL, atol=1e-37)
        alpha = 0 if kshap else d["alpha"]
        rw = ctx.driver.call({"op": "wls", "F": F, "alpha": enc(alpha), "design": enc(r["design"]),
                              "targets": enc(r["targets"]), "weights": enc(w_model), "mapping": [int(v) for v in mapping]})
        full_rank = rw["coef"] is not None
        ctx.count("full_rank", full_rank)
        if d.get("offset"):
            full_rank = False       # offset family: the float32 fit of targets of magnitude 1e4 is outside the stated tolerance; weights / queries only
            ctx.count("offset_cases", 1)
        if full_rank:
            ctx.check_corr("lime_coef_model", coef_impl, rw["coef"], d, rtol=C_RTOL, atol=C_ATOL)
            ctx.check_corr("lime_explanation_model", out[i].reshape(-1), rw["broadcast"], d, rtol=C_RTOL, atol=C_ATOL)
        # ---- property predicates on the implementation (Spec recomputed from RECORDED queries) ---
        ctx.check_pred("queries-are-the-masked-inputs", rows_rec, r["spec_rows"], d)
        ctx.check_pred("fit-design-is-the-drawn-samples", fitX, samples.tolist(), d)
        rq = lean_rows(ctx, b, d, i, rows_rec)
        ctx.check_pred("fit-targets-are-scores-of-own-queries", fity, rq["targets"], d)
        if kshap:
            w_spec = [1.0] * nb
        else:
            w_spec = kernel_weights(rq["d2"] if d["mode"] == "euclidean" else rq["cos_d2"], width)
        ctx.check_pred("weights-documented-kernel", fitw, [fr(v) for v in w_spec], d, rtol=W_RTOL, atol=1e-37)
        rs = ctx.driver.call({"op": "wls", "F": F, "alpha": enc(alpha), "design": enc(samples.tolist()),
                              "targets": enc(rq["targets"]), "weights": enc(w_spec), "mapping": [int(v) for v in mapping]})
        if rs["coef"] is not None and not d.get("offset"):
            ctx.check_pred("coef-is-wls-on-own-queries", out[i].reshape(-1), rs["broadcast"], d, rtol=C_RTOL, atol=C_ATOL)
            ctx.check_pred("coef_-is-minimiser", coef_impl, rs["coef"], d, rtol=C_RTOL, atol=C_ATOL)
        # broadcast: every cell carries the coefficient of its segment
        bc = coef_impl.astype(np.float32)[mapping]
        ctx.check_prop("broadcast-to-segments", np.array_equal(bc, out[i].reshape(-1)), d,
                       {"coef": coef_impl.tolist(), "out": out[i].reshape(-1).tolist()})
        if len(set(np.round(out[i].reshape(-1), 6).tolist())) > 1 and samples.min() == 0:
            nontrivial = True
        if kshap:
            sizes = samples.sum(1)
            for k in sizes.tolist():
                ctx.count("kshap_sizes", f"F{F}k{k}")
            ctx.check_prop("coalition-size-in-1..F-1", bool(sizes.min() >= 1 and sizes.max() <= F - 1), d,
                           {"sizes": sorted(set(sizes.tolist())), "F": F})
            # coalitions read back from the recorded queries (x never equals ref)
            act = (rows_rec == xi[None, :]).reshape(nb, b["cells"], b["c"]).all(-1)
            rec_samples = np.zeros((nb, F), dtype=np.int64)
            for j in range(F):
                cellsj = np.where(mapping == j)[0]
                if len(cellsj):
                    rec_samples[:, j] = act[:, cellsj].all(1)
            used = sorted(set(mapping.tolist()))
            rsz = rec_samples[:, used].sum(1)
            ctx.check_prop("recorded-coalition-size-in-1..F-1",
                           bool(rsz.max() <= F - 1 and (len(used) < F or rsz.min() >= 1)), d,
                           {"sizes": sorted(set(rsz.tolist())), "F": F})
            if d["additive"]:
                sig = "F=2: (Z|1) never has full column rank" if F == 2 else None
                if full_rank or F == 2:
                    ctx.check_pred("kshap-shapley-exact", out[i].reshape(-1), r["shapley_cells"], d,
                                   signature=sig, rtol=1e-4, atol=1e-5)
                    eff = float(np.sum(coef_impl))
                    ctx.check_pred("kshap-efficiency", [eff], [r["fx"] - r["fref"]], d,
                                   signature=sig, rtol=1e-4, atol=1e-5)
                else:
                    ctx.count("kshap_rank_deficient_skipped")
    ctx.check_corr("lime_chunk_sizes_model", model.calls, [fr(v) for v in chunks_model], d)
    ctx.case(d, nontrivial)


def run_probs(ctx, d):
    import tensorflow as tf
    from xplique.attributions import KernelShap
    F = d["F"]
    ok, impl = ctx.impl_call(d, lambda: KernelShap._get_probs_nb_selected_feature(tf.constant(F, tf.int32)).numpy())
    if not ok:
        ctx.case(d, False)
        return
    r = ctx.driver.call({"op": "kshap_probs", "F": F})

    def f32(v):
        return fr(np.float32(float(v)))
    ctx.count("method", "probs")
    if not ctx.check_prop("probs-length", impl.shape == (F,), d, {"shape": list(impl.shape)}):
        ctx.case(d, False)
        return
    exact_s = len(r["spec"]) == F and all(fr(a) == f32(m) for a, m in zip(impl, r["spec"]))
    ctx.check_corr("kshap_probs_model", impl, [f32(m) for m in r["impl"]], d, rtol=0.0, atol=0.0)
    ctx.check_prop("coalition-size-distribution", exact_s, d,
                   {"impl": [float(v) for v in impl], "spec": [str(v) for v in r["spec"]]})
    ctx.case(d, True)


def run_topk(ctx, d):
    import tensorflow as tf
    from xplique.attributions import KernelShap
    F, nb = d["F"], d["nb"]
    tf.random.set_seed(d["case_seed"] % (1 << 30))
    log = {}
    on, oc = tf.random.normal, tf.random.categorical

    def ln(*a, **k):
        r = on(*a, **k)
        log["normal"] = np.array(r)
        return r

    def lc(*a, **k):
        r = oc(*a, **k)
        log["cat"] = np.array(r)
        return r

    def impl():
        fn = KernelShap._kernel_shap_pertub_func.python_function
        tf.random.normal, tf.random.categorical = ln, lc
        try:
            return np.array(fn(tf.constant([F], tf.int32), nb))
        finally:
            tf.random.normal, tf.random.categorical = on, oc
    ok, out = ctx.impl_call(d, impl)
    ctx.count("method", "topk")
    if not ok or "normal" not in log or "cat" not in log:
        ctx.check_prop("topk-draws-observed", not ok, d, {"log": list(log)})
        ctx.case(d, False)
        return
    vals = log["normal"].reshape(nb, F)
    ks = log["cat"].reshape(-1)
    keep = [i for i in range(nb) if len(set(vals[i].tolist())) == F]       # Nodup hypothesis
    ctx.count("topk_rows", n=len(keep))
    r = ctx.driver.call({"op": "kshap_sample", "vals": enc(vals[keep]), "ks": [int(ks[i]) for i in keep]})
    ctx.check_corr("kshap_topk_model", out[keep], r["samples"], d)
    ctx.check_prop("coalition-size-in-1..F-1", bool(ks.min() >= 1 and ks.max() <= F - 1), d, {"ks": sorted(set(ks.tolist()))})
    ctx.check_prop("coalition-has-k-active-features", bool((out.sum(1)[keep] == ks[keep]).all()), d,
                   {"sizes": out.sum(1).tolist(), "ks": ks.tolist()})
    for k in ks.tolist():
        ctx.count("kshap_sizes", f"F{F}k{k}")
    ctx.case(d, True)


# --------------------------------------------------------------------------------------------------
def gen_cases(ctx):
    rng = ctx.rng
    thorough = ctx.tier == "thorough"
    scale = ctx.budget_scale
    cases = []
    # coalition-size distribution: every F in 2..64
    for F in range(2, 65):
        cases.append({"method": "probs", "F": F})
    for _ in range((40 if thorough else 8) * scale):
        cases.append({"method": "topk", "F": int(rng.integers(2, 10)), "nb": int(rng.integers(5, 40)),
                      "case_seed": int(rng.integers(1 << 31))})

    def shape_for(kind, ident):
        hi = 6 if not thorough else 8
        if kind == "tab":
            return (int(rng.integers(2, 9)),) if ident else (int(rng.integers(3, 13)),)
        if kind == "ts":
            if ident:
                return [(1, 2), (2, 1), (2, 2), (2, 3), (3, 2), (2, 4), (4, 2), (1, 5), (7, 1)][int(rng.integers(9))]
            a = int(rng.integers(1, hi))
            bb = int(rng.integers(1, hi))
            if a * bb < 3:
                bb = 3
            return (a, bb)
        c = 1 if rng.random() < 0.4 else 3
        if ident:
            return [(1, 2), (2, 1), (2, 3), (3, 2), (2, 4), (4, 2), (1, 5), (7, 1)][int(rng.integers(8))] + (c,)
        a = int(rng.integers(2, hi))
        bb = int(rng.integers(2, hi))
        if a == bb:
            bb = bb % (hi - 1) + 2 if (bb % (hi - 1) + 2) != a else bb + 1
        return (a, bb, c)

    nexp = (1500 if thorough else 190) * scale
    nsweep = (12 if thorough else 2) * scale
    for t in range(nexp + nsweep):
        method = "lime" if rng.random() < 0.6 else "kshap"
        kind = ["tab", "ts", "img"][int(rng.integers(3))]
        ident = rng.random() < 0.35
        shape = shape_for(kind, ident)
        cells = int(np.prod(shape[:2] if kind == "img" else shape))
        F = cells if ident else int(rng.integers(2, min(8, cells) + 1))
        nb = int(rng.integers(F + 1, 4 * F + 1))
        if method == "kshap" and rng.random() < 0.7:
            nb = int(rng.integers(3 * F, 6 * F + 1))
        bs_choices = [None] + list(range(1, nb + 2))
        bs = bs_choices[int(rng.integers(len(bs_choices)))]
        if bs is not None:
            bs = int(bs)
        d = {"method": method, "kind": kind, "shape": list(shape), "map": "identity" if ident else "custom",
             "F": F, "N": int(rng.integers(1, 4)), "nb": nb, "bs": bs,
             "ref": "default" if rng.random() < 0.4 else "custom",
             "mode": "euclidean" if rng.random() < 0.5 else "cosine",
             "width": WIDTHS[int(rng.integers(3))], "alpha": [2.0, 2.0, 1.0, 0.5][int(rng.integers(4))],
             "additive": bool(rng.random() < (0.75 if method == "kshap" else 0.25)),
             "vary_F": bool(rng.random() < 0.5), "unused_id": bool((not ident) and rng.random() < 0.15),
             "case_seed": int(rng.integers(1 << 31))}
        if method == "kshap":
            d["mode"], d["width"], d["alpha"] = "euclidean", 1.0, 0.0
        elif d["mode"] == "euclidean" and rng.random() < 0.2:
            d.update(offset=4096, additive=True, ref="custom")
        if t >= nexp:
            # exhaustive batch-size sweep of one small configuration: None and every b in 1..nb+1
            d["method"] = "lime" if (t - nexp) % 2 == 0 else "kshap"
            if d["method"] == "kshap":
                d["mode"], d["width"], d["alpha"] = "euclidean", 1.0, 0.0
            d["nb"] = min(d["nb"], F + 3)
            d["N"] = 1
            for b_ in [None] + list(range(1, d["nb"] + 2)):
                cases.append(dict(d, bs=b_))
            continue
        cases.append(d)
    return cases


def corpus_cases():
    p = os.path.join(VERIF, "corpus", "C07")
    out = []
    if os.path.isdir(p):
        for fn in sorted(os.listdir(p)):
            if fn.endswith(".json"):
                out.append(json.load(open(os.path.join(p, fn))))
    return out


def run(ctx):
    for d in corpus_cases() + gen_cases(ctx):
        run_case(ctx, d)


def extra(ctx):
    """support only (not a verdict): chi-square statistic of the observed coalition sizes against
    P(k) ~ (F-1)/(k(F-k)), per F"""
    sizes = ctx.stats.get("kshap_sizes", {})
    byF = {}
    for key, cnt in sizes.items():
        F, k = key[1:].split("k")
        byF.setdefault(int(F), {})[int(k)] = cnt
    chi = {}
    for F, obs in sorted(byF.items()):
        if F < 3:
            continue
        pk = {k: (F - 1) / (k * (F - k)) for k in range(1, F)}
        tot = sum(pk.values())
        n = sum(obs.values())
        chi[str(F)] = {"n": n, "dof": F - 2,
                       "chi2": round(sum((obs.get(k, 0) - n * pk[k] / tot) ** 2 / (n * pk[k] / tot) for k in pk), 3)}
    return {"coalition_size_chi2_support_only": chi,
            "assumptions_c07": [
                "score is per-sample (score zs = zs.map f); kappa stands for exp(-.), only kappa > 0 is used",
                "sklearn Ridge / LinearRegression return a minimiser of sum w (y - <b,z> - c)^2 + alpha |b|^2 "
                "(compared with the exact checked solution of the normal equations in the tolerance lane)",
                "Euclidean norms of the cosine kernel are parameters (float64 sqrt of the exact squared norm, validated by the driver)",
                "tf.random.categorical / tf.random.normal draws and tf.argsort are observed, not modelled; "
                "that coalition sizes FOLLOW P(k) is not decided (chi-square recorded as support only)"]}


def replay(ctx, r):
    run_case(ctx, r["case"] if "case" in r else r["first_disagreement"][0])
