"""C04 - Integrated Gradients: straight path, trapezoid, completeness.

Implementation: xplique.attributions.IntegratedGradients.
Model: Lean `IG.igImpl` (generated `max(batch_size // steps, 1)`) followed by `harmonize`;
Spec: Lean `IG.igSpec` + `reducePixels`; completeness data (`f x - f baseline`, leading cubic
coefficient along the path, predicted trapezoid gap) are computed by Lean from the score function.
The interpolated points are OBSERVED by wrapping `IntegratedGradients._get_interpolated_points`.
"""
import json
import os
from fractions import Fraction

import numpy as np

from common import enc, small_ints, VERIF, fr
from props import c01_models as M

RULE = ("cases = (score kind in {polynomial of degree <= 3 with cross terms through an explicit operator, functional "
        "Keras polynomial, functional Keras ReLU net (operator=None)}, data kind tabular / time series / image C in "
        "1..4 with H != W, N, real-valued targets differing per sample, reducer, steps in 2..12 (+ 17, 33 in sweeps; "
        "steps = 1 as malformed stream), baseline in {0, 1, -2, 3/4}, batch size incl. < steps and None) from a seeded "
        "generator; each case compares xplique.IntegratedGradients with the Lean Impl model (same batch size; also the "
        "sizes of the interpolation calls) and evaluates the predicates: value = Lean Spec, observed path = straight "
        "segment incl. end points, sum of attributions = score(x) - score(baseline) for quadratic scores, cubic gap = "
        "a3 / (2 (steps-1)^2), |gap| strictly decreasing over steps 2,3,5,9,17,33; distinct = distinct descriptor hash; "
        "non-trivial = output not constant")

BASELINES = (0.0, 1.0, -2.0, 0.75)
REDUCERS = ("min", "max", "mean", "sum", None)


def pow2(k):
    return k >= 1 and (k & (k - 1)) == 0


def explain(ctx, d, sc, x, y, steps, bs, reducer, baseline, log=None):
    from xplique.attributions import IntegratedGradients

    def impl():
        expl = IntegratedGradients(sc.model, operator=sc.operator, batch_size=bs, reducer=reducer,
                                   steps=steps, baseline_value=baseline)
        if log is None:
            return expl(x, y)
        with M.Observe(IntegratedGradients, "_get_interpolated_points",
                       lambda a, k, out: log.append((np.array(a[0]), int(a[1]), np.array(a[2]), np.array(out)))):
            return expl(x, y)
    return ctx.impl_call(d, impl)


def entry_tol(r, x, baseline):
    """tolerance lane: absolute forward-error budget of one attribution, proportional to the
    magnitude budget of the gradient (Lean's `bud`) times |x - baseline|; exact equality first"""
    span = max(1.0, float(np.abs(x - baseline).max()))
    return {"rtol": 5e-5, "atol": 2e-5 * max(1.0, float(r["bud"])) * span, "scale": 1.0}


def totals(out, n, kind, shape, reducer):
    """sum of all attributions per input, or None when the reducer destroyed it (min / max)"""
    flat = out.reshape(n, -1).astype(np.float64)
    if kind == "img" and shape[2] != 1 and reducer in ("min", "max"):
        return None, None
    mult = shape[2] if (kind == "img" and shape[2] != 1 and reducer == "mean") else 1
    return flat.sum(1) * mult, np.abs(flat).sum(1) * mult


def run_case(ctx, d):
    rng = np.random.default_rng(d["case_seed"])
    kind, shape, n, nc = d["kind"], tuple(d["shape"]), d["N"], d["nc"]
    reducer, bs, steps, baseline = d["reducer"], d["bs"], d["steps"], d["baseline"]
    dflat = int(np.prod(shape))
    sc = M.make_score(rng, d["score"], kind, shape, nc, cub=d.get("cub", 0))
    x = M.distinct_inputs(rng, n, shape)
    y = small_ints(rng, (n, nc), -2, 2)
    if d.get("y_den", 1) != 1:
        y = (y + rng.integers(0, d["y_den"], size=y.shape) / d["y_den"]).astype(np.float32)
    ctx.count("score", sc.label + ("-cubic" if sc.degree == 3 else ""))
    ctx.count("kind", kind if kind != "img" else f"img-C{shape[2]}")
    ctx.count("reducer", str(reducer))
    ctx.count("baseline", str(baseline))
    req = {"op": "c04", "score": sc.json, "lay": M.layout_json(kind, shape), "reducer": reducer, "bs": bs,
           "steps": steps, "b": enc(baseline), "D": dflat, "xs": enc(x.reshape(n, -1)), "ys": enc(y)}

    if d.get("sweep"):
        return run_sweep(ctx, d, sc, x, y, req)

    log = []
    ok, out = explain(ctx, d, sc, x, y, steps, bs, reducer, baseline, log)
    if not ok:
        ctx.case(d, False)
        return
    dtype = out.dtype.name
    out = out.numpy()
    r = ctx.driver.call(req)
    ctx.count("steps", steps)
    ctx.count("bs_vs_steps", "none" if bs is None else ("lt" if bs < steps else ("eq" if bs == steps else "gt")))
    ctx.count("linspace", "exact" if pow2(steps - 1) else "inexact")
    exp_shape = M.expected_shape(kind, shape, n, reducer)
    shape_ok = tuple(out.shape) == exp_shape
    ctx.check_prop("shape", shape_ok, d, {"got": list(out.shape), "want": list(exp_shape)})
    ctx.check_prop("dtype", dtype == "float32", d, {"dtype": dtype})
    ctx.check_corr("ig_interpolation_call_sizes", [int(l[0].shape[0]) for l in log], r["sizes"], d)
    if steps < 2:   # malformed stream: mean over zero trapezoids = NaN, modelled as `none`
        ctx.check_corr("ig_steps1_undefined", out.reshape(-1)[:1], [None] if r["impl"] is None else [0], d, scale=1.0)
        ctx.case(d, False)
        ctx.count("malformed", "steps-1")
        return
    # ReLU kink guard (inexact linspace only)
    if r["kink"] is not None and not pow2(steps - 1) and r["kink"] < Fraction(1, 10000):
        ctx.count("skipped", "relu-kink-within-float-rounding")
        ctx.case(d, False)
        return
    ctx.case(d, len(set(np.round(out.reshape(-1), 6).tolist())) > 1)
    if not shape_ok:
        return
    tol = entry_tol(r, x, baseline)
    tol["atol"] *= (shape[2] if kind == "img" else 1)                        # `sum` reducer adds C terms
    ctx.check_corr("c04_impl_model", out.reshape(n, -1), r["impl"], d, **tol)
    ctx.check_pred("ig-is-x-minus-baseline-times-trapezoid-of-path-gradients", out.reshape(n, -1), r["spec"], d, **tol)
    # straight path, end points included (observed interpolated points)
    try:
        path = np.concatenate([l[3].reshape(l[0].shape[0], steps, -1) for l in log], 0)
        path_ok = path.shape == (n, steps, dflat)
    except ValueError:
        path, path_ok = None, False
    ctx.check_prop("path-shape", path_ok, d, {"calls": [list(l[3].shape) for l in log]})
    if path_ok:
        ctx.check_pred("path-is-straight-segment-baseline-to-input", path, r["path"], d)
        ends = np.stack([path[:, 0], path[:, -1]], 1)
        want = np.stack([np.full_like(x.reshape(n, -1), baseline), x.reshape(n, -1)], 1)
        ctx.check_prop("path-end-points-included", np.array_equal(ends, want), d,
                       {"first": path[:, 0].tolist()[:2], "last": path[:, -1].tolist()[:2]})
    completeness(ctx, d, sc, x, y, out, r, steps, baseline)


def completeness(ctx, d, sc, x, y, out, r, steps, baseline):
    kind, shape, n, reducer = d["kind"], tuple(d["shape"]), d["N"], d["reducer"]
    if sc.degree == 0:
        return
    tot, mag = totals(out, n, kind, shape, reducer)
    if tot is None:
        return
    # the implementation's own score difference (TensorFlow, float32) and Lean's exact one
    delta_tf = sc.score(x, y).astype(np.float64) - sc.score(np.full_like(x, baseline), y).astype(np.float64)
    ctx.check_corr("score_difference", delta_tf, r["delta"], d, rtol=5e-5, atol=2e-5 * max(1.0, float(r["sbud"])),
                   scale=1.0)
    dflat = int(np.prod(shape))
    stol = {"rtol": 5e-5, "scale": 1.0,
            "atol": dflat * entry_tol(r, x, baseline)["atol"] + 2e-5 * max(1.0, float(r["sbud"]))}
    if any(v != 0 for v in r["d4"]):
        return                                         # not a cubic along the path (cannot happen for degree <= 3)
    if all(a == 0 for a in r["a3"]) and sc.degree <= 2:
        ctx.count("completeness", "quadratic")
        ctx.check_pred("completeness-quadratic", tot, r["delta"], d, **stol)
        ctx.check_pred("completeness-quadratic-vs-implementation-scores", tot - delta_tf, [Fraction(0)] * n, d,
                       **stol)
    else:
        ctx.count("completeness", "cubic-gap")
        ctx.check_pred("cubic-gap-formula", tot - np.array([float(v) for v in r["delta"]]), r["gap_pred"], d,
                       **stol)


def run_sweep(ctx, d, sc, x, y, req):
    """cubic score, integer baseline: gap = a3 / (2 (steps-1)^2) for steps 2,3,5,9,17,33, |gap| decreasing"""
    kind, shape, n = d["kind"], tuple(d["shape"]), d["N"]
    gaps, preds = [], []
    for steps in (2, 3, 5, 9, 17, 33):
        ok, out = explain(ctx, d, sc, x, y, steps, d["bs"], None, d["baseline"])
        if not ok:
            ctx.case(d, False)
            return
        out = out.numpy()
        rq = dict(req)
        rq["steps"] = steps
        rq["reducer"] = None
        r = ctx.driver.call(rq)
        tol = entry_tol(r, x, d["baseline"])
        ctx.check_corr("c04_impl_model", out.reshape(n, -1), r["impl"], d, **tol)
        tot = out.reshape(n, -1).astype(np.float64).sum(1)
        g = tot - np.array([float(v) for v in r["delta"]])
        ctx.check_pred("cubic-gap-formula", g, r["gap_pred"], d, rtol=5e-5, scale=1.0,
                       atol=int(np.prod(shape)) * tol["atol"] + 2e-5 * max(1.0, float(r["sbud"])))
        gaps.append(g)
        preds.append([float(v) for v in r["gap_pred"]])
    gaps, preds = np.abs(np.array(gaps)), np.abs(np.array(preds))
    ok = True
    for k in range(len(gaps) - 1):
        for i in range(n):
            if preds[k, i] > 0 and not (gaps[k, i] - gaps[k + 1, i] > 0.5 * (preds[k, i] - preds[k + 1, i])):
                ok = False
    ctx.check_prop("gap-shrinks-as-steps-grow", ok, d, {"abs_gaps": gaps.tolist(), "predicted": preds.tolist()})
    ctx.count("sweep", "cubic")
    ctx.case(d, bool(preds.max() > 0))


def gen_cases(ctx):
    rng = ctx.rng
    thorough = ctx.tier == "thorough"
    total = (1000 if thorough else 120) * ctx.budget_scale
    nsweep = (30 if thorough else 4) * ctx.budget_scale
    dmax = 7 if thorough else 5
    cases = []
    for idx in range(total + nsweep):
        sweep = idx >= total
        u = rng.random()
        kind = "tab" if u < 0.2 else ("ts" if u < 0.4 else "img")
        if kind == "tab":
            shape = [int(rng.integers(1, 2 * dmax))]
        elif kind == "ts":
            shape = [int(rng.integers(1, dmax + 1)), int(rng.integers(1, dmax + 1))]
        else:
            h, w = int(rng.integers(1, dmax + 1)), int(rng.integers(1, dmax + 1))
            if h == w:
                w = w % dmax + 1
            shape = [h, w, int(rng.integers(1, 5))]
        dflat = int(np.prod(shape))
        v = rng.random()
        if sweep:
            score, cub = "poly-op", 2
        elif v < 0.3:
            score, cub = "poly-op", 1 + int(rng.integers(2))
        elif v < 0.55:
            score, cub = "poly-op-quadratic", 0
        elif v < 0.8 and dflat <= 30:
            score, cub = "keras-poly", 0
        else:
            score, cub = "keras-relu", 0
        n = int(rng.integers(1, 8 if thorough else 6))
        steps = int(rng.integers(2, 13))
        if not sweep and rng.random() < 0.03:
            steps = 1
        if thorough and rng.random() < 0.1:
            steps = int(rng.choice([17, 33, 20]))
        opts = [None, 1, 2, max(1, steps - 1), steps, steps + 1, 2 * steps, 2 * steps + 1, n * steps, 64]
        d = {"score": score, "cub": cub, "kind": kind, "shape": shape, "N": n, "nc": int(rng.integers(1, 4)),
             "reducer": REDUCERS[int(rng.integers(5))], "steps": steps,
             "baseline": float(BASELINES[int(rng.integers(4))]), "bs": opts[int(rng.integers(len(opts)))],
             "y_den": int(rng.choice([1, 1, 2, 4])), "case_seed": int(rng.integers(1 << 31))}
        if sweep:
            d["sweep"] = True
            d["baseline"] = float(rng.choice([0.0, 1.0, -2.0]))
            d["y_den"] = 1
            d["reducer"] = None
        cases.append(d)
    return cases


def corpus_cases():
    p = os.path.join(VERIF, "corpus", "C04")
    out = []
    if os.path.isdir(p):
        for fn in sorted(os.listdir(p)):
            if fn.endswith(".json"):
                out.append(json.load(open(os.path.join(p, fn))))
    return out


def run_reuse_case(ctx, d):
    """ONE IntegratedGradients object reused: explain, assign another baseline_value (and steps), explain again
    inputs of the same shape.  Quadratic integer score: completeness is exact, so the sum of the attributions
    must be score(x) - score(CURRENT baseline) at every call (added after a seeded change was missed)."""
    import tensorflow as tf
    from xplique.attributions import IntegratedGradients
    from common import PolyModel
    rng = np.random.default_rng(d["case_seed"])
    shape = tuple(d["shape"])
    nflat = int(np.prod(shape))
    pm = PolyModel(rng, nflat, nc=2, quad=3, cub=0, coef=2)
    op = lambda f, x, y: tf.reduce_sum(f(x) * y, -1)  # noqa: E731
    n = d["N"]
    y = small_ints(rng, (n, 2), -2, 2)
    y[:, 0] += 1
    ok, expl = ctx.impl_call(d, lambda: IntegratedGradients(pm.tf_outputs, operator=op, steps=d["steps"][0],
                                                            baseline_value=float(d["baselines"][0]), batch_size=d["bs"],
                                                            reducer=None))   # keep the channel axis: the sum runs over ALL features
    ctx.case(d, True)
    ctx.count("reuse_cases")
    if not ok:
        return
    for c, (b, st) in enumerate(zip(d["baselines"], d["steps"])):
        expl.baseline_value = float(b)
        expl.steps = int(st)
        x = small_ints(rng, (n,) + shape, -2, 2)
        ok, out = ctx.impl_call(d, lambda: expl(x, y).numpy(), signature="reuse-call")
        if not ok:
            return
        xf = x.reshape(n, -1).astype(np.float64)
        sx = (pm.outputs(xf) * y).sum(-1)
        sb = (pm.outputs(np.full_like(xf, float(b))) * y).sum(-1)
        tot = out.reshape(n, -1).astype(np.float64).sum(-1)
        ctx.check_prop("completeness-after-baseline-change", bool(np.allclose(tot, sx - sb, rtol=1e-5, atol=1e-4)), d,
                       {"call": c, "baseline_value": b, "steps": st, "sum_attributions": tot.tolist(),
                        "score_x_minus_score_baseline": (sx - sb).tolist()})


def run_scale_case(ctx, d):
    """inputs and baseline of a very small or very large magnitude (x = integers * 2^e, the score reads x * 2^-e, so every
    float32 operation stays exact): the attribution is (x - baseline) * trapezoid at EVERY scale - no threshold below which
    a feature counts as 'equal to the baseline' (added after a seeded change was missed).  Quadratic integer score:
    completeness is exact."""
    import tensorflow as tf
    from xplique.attributions import IntegratedGradients
    from common import PolyModel
    rng = np.random.default_rng(d["case_seed"])
    shape = tuple(d["shape"])
    nflat = int(np.prod(shape))
    pm = PolyModel(rng, nflat, nc=2, quad=3, cub=0, coef=2)
    sc = float(2.0 ** d["exp"])
    model = lambda x: pm.tf_outputs(x * (1.0 / sc))        # noqa: E731
    op = lambda f, x, y: tf.reduce_sum(f(x) * y, -1)  # noqa: E731
    n = d["N"]
    y = small_ints(rng, (n, 2), -2, 2)
    y[:, 0] += 1
    xi = small_ints(rng, (n,) + shape, -2, 2)
    bi = float(d["baseline_int"])
    x = (xi * sc).astype(np.float32)
    ctx.case(d, True)
    ctx.count("scale_cases", f"2^{d['exp']}")
    ok, out = ctx.impl_call(d, lambda: IntegratedGradients(model, operator=op, steps=d["steps"], baseline_value=bi * sc,
                                                           batch_size=d["bs"], reducer=None)(x, y).numpy(), signature="scale-call")
    if not ok:
        return
    xf = xi.reshape(n, -1).astype(np.float64)
    sx = (pm.outputs(xf) * y).sum(-1)
    sb = (pm.outputs(np.full_like(xf, bi)) * y).sum(-1)
    tot = out.reshape(n, -1).astype(np.float64).sum(-1)
    ctx.check_prop("completeness-at-every-input-scale", bool(np.allclose(tot, sx - sb, rtol=1e-5, atol=1e-4)), d,
                   {"scale": sc, "baseline_value": bi * sc, "sum_attributions": tot.tolist(),
                    "score_x_minus_score_baseline": (sx - sb).tolist()})
    # scale covariance: attributions(x * s) for score(x / s) equal the attributions at scale 1
    ok, ref = ctx.impl_call(d, lambda: IntegratedGradients(pm.tf_outputs, operator=op, steps=d["steps"], baseline_value=bi,
                                                           batch_size=d["bs"], reducer=None)(xi.astype(np.float32), y).numpy(),
                            signature="scale-call")
    if ok:
        ctx.check_prop("attributions-independent-of-input-scale", bool(np.allclose(out, ref, rtol=1e-5, atol=1e-5)), d,
                       {"scale": sc, "scaled": out.reshape(-1)[:8].tolist(), "unit": ref.reshape(-1)[:8].tolist()})


def run(ctx):
    for d in corpus_cases() + gen_cases(ctx):
        run_case(ctx, d)
    rng = ctx.rng
    for e in ([-24, -30, 20, -10] if ctx.tier == "quick" else [-24, -30, -40, -16, -10, 10, 20, 30]) * ctx.budget_scale:
        run_scale_case(ctx, {"family": "scale", "exp": e, "shape": [[4], [2, 3], [3, 2, 2]][int(rng.integers(3))],
                             "N": int(rng.integers(1, 4)), "baseline_int": float(rng.choice([0.0, 1.0, -2.0])),
                             "steps": int(rng.choice([2, 3, 5, 9])), "bs": [None, 1, 4, 64][int(rng.integers(4))],
                             "case_seed": int(rng.integers(1 << 31))})
    for _ in range((12 if ctx.tier == "thorough" else 3) * ctx.budget_scale):
        k = int(rng.integers(2, 5))
        run_reuse_case(ctx, {"family": "reuse", "shape": [[4], [2, 3], [3, 2, 2]][int(rng.integers(3))], "N": int(rng.integers(1, 4)),
                             "baselines": [float(v) for v in rng.choice([0.0, 1.0, -2.0, 0.5, -0.75], size=k)],
                             "steps": [int(v) for v in rng.choice([2, 3, 5, 9], size=k)],
                             "bs": [None, 1, 4, 64][int(rng.integers(4))], "case_seed": int(rng.integers(1 << 31))})


def extra(ctx):
    return {"property_assumptions": [
        "PerSample op g: the gradient TensorFlow returns for a sample does not depend on the rest of its batch",
        "TensorFlow autodiff delivers the analytic gradient g (cross-checked exactly on integer polynomials and ReLU nets)",
        "tf.linspace(0, 1, steps)[j] denotes j / (steps - 1) (exact in float32 iff steps - 1 is a power of two)",
        "completeness theorems take the chain rule as hypothesis: <x - b, g(point_j)> = phi'(alpha_j); the "
        "implementation is checked directly against score(x) - score(baseline) on polynomial scores",
        "float32 rounding idealised; tolerance lane bounded by a magnitude budget computed by the Lean driver"]}


def replay(ctx, r):
    _d = r["case"] if "case" in r else r["first_disagreement"][0]
    if isinstance(_d, dict) and _d.get("family") == "reuse":
        run_reuse_case(ctx, _d)
        return
    if isinstance(_d, dict) and _d.get("family") == "scale":
        run_scale_case(ctx, _d)
        return
    case = r.get("case") or ((r.get("first_disagreement") or [None])[0])
    if case is None:        # broken proof obligation without a failing input: the Lean stage re-checks it
        for d in corpus_cases():
            run_case(ctx, d)
    else:
        run_case(ctx, case)
