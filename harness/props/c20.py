"""C20 - CRAFT factors are non-negative, consistent, and importances are Sobol indices.

Implementation: xplique.concepts.CraftTorch on small PyTorch extractor / head pairs (2-D and 4-D
activations, non-square images), the head being chosen AFTER the fit.
Model: Lean `Craft.extractPatches` (crops, exact), `Craft.chunkLens` (batches handed to the
extractor, generated chunk arithmetic), `Craft.importance2/4` (Jansen indices of the class logit on
the fitted U, W, the Halton replicated design and the head's coefficients - tolerance lane).
sklearn's NMF is a parameter of the model; its hypothesis (non-negative, one row per input row,
`transform` acts row-wise) is re-validated on every case.
"""
import json
import os
import warnings
from fractions import Fraction

import numpy as np

from common import enc, fr, VERIF

RULE = ("cases = (2-D or 4-D activations, N images, channels, H != W, patch size, number of concepts, extractor "
        "width, number of classes, class id, two batch sizes, nb_design, linear or polynomial head, optionally a "
        "concept direction the head ignores, global or local importance) drawn from a seeded generator; torch "
        "weights and images derive from the case seed; few cases in the quick tier (NMF fits). distinct = "
        "descriptor hash; non-trivial = importances not all equal and at least two crops per image")


def build_models(dsc):
    import torch
    from torch import nn
    torch.manual_seed(dsc["case_seed"])
    spatial = dsc["spatial"]

    class Ext(nn.Module):
        def __init__(self):
            super().__init__()
            # "silent": bias-free convolution and no offset, so an all-black crop has an all-zero activation
            self.c = nn.Conv2d(dsc["C"], dsc["cout"], 3, padding=1, bias=not dsc.get("silent"))
            self.calls = []

        def forward(self, x):
            self.calls.append(int(x.shape[0]))
            a = torch.relu(self.c(x)) + (0.0 if dsc.get("silent") else 0.05)
            return a if spatial else a.mean((2, 3))

    class Head(nn.Module):
        """class logits = affine (+ one product term) of the pooled activation, times alpha, plus beta"""
        def __init__(self, weight, bias, quad, alpha=1.0, beta=0.0):
            super().__init__()
            self.w = torch.tensor(weight, dtype=torch.float32)
            self.b = torch.tensor(bias, dtype=torch.float32)
            self.q = torch.tensor(quad, dtype=torch.float32)
            self.alpha, self.beta = alpha, beta
            self.calls = []

        def forward(self, a):
            self.calls.append(int(a.shape[0]))
            a = a.float()
            if a.dim() == 4:
                a = a.mean((2, 3))
            out = a @ self.w.T + self.b + self.q[None, :] * (a[:, :1] * a[:, 1:2])
            return self.alpha * out + self.beta
    return Ext().eval(), Head


def _np_to_t(a):
    import torch
    return torch.tensor(np.asarray(a, dtype=np.float32))


def maxdev(a, b):
    a, b = np.asarray(a), np.asarray(b)
    if a.shape != b.shape:
        return float("inf")
    return float(np.abs(a - b).max())


def corpus_cases():
    p = os.path.join(VERIF, "corpus", "C20")
    out = []
    if os.path.isdir(p):
        for fn in sorted(os.listdir(p)):
            if fn.endswith(".json"):
                out.append(json.load(open(os.path.join(p, fn))))
    return out


def run_case(ctx, dsc):
    import torch
    from xplique.concepts import CraftTorch
    from xplique.attributions.global_sensitivity_analysis import HaltonSequenceRS
    warnings.filterwarnings("ignore")
    rng = np.random.default_rng(dsc["case_seed"])
    N, C, H, W, p, r = dsc["N"], dsc["C"], dsc["H"], dsc["W"], dsc["p"], dsc["r"]
    cout, K, cid, bs, bs2, nd = dsc["cout"], dsc["K"], dsc["class_id"], dsc["bs"], dsc["bs2"], dsc["nb_design"]
    spatial = dsc["spatial"]
    if dsc.get("silent"):
        stride0 = (p * 4) // 5
        if not (stride0 >= 1 and ((H - p) // stride0 >= 1 or (W - p) // stride0 >= 1)):
            ctx.count("silent_crop_cases", "image-too-small")
            dsc = dict(dsc, silent=False)      # no band fits next to a non-black crop: an ordinary case
    ext, Head = build_models(dsc)
    # block mosaics (3x3 blocks of random intensity per channel): spatially varied activations, so that
    # the concept bank is not (numerically) rank one
    low = rng.integers(0, 17, size=(N, C, (H + 2) // 3, (W + 2) // 3)) / 16.0
    imgs_np = np.kron(low, np.ones((1, 1, 3, 3)))[:, :, :H, :W].astype(np.float32)
    if dsc.get("silent"):
        # letterbox band: the first row (or column) of crops is entirely black (silent crops); the other crops are not
        stride = (p * 4) // 5
        if stride >= 1 and (H - p) // stride >= 1:
            imgs_np[:, :, :p, :] = 0.0
            ctx.count("silent_crop_cases", "rows")
        elif stride >= 1 and (W - p) // stride >= 1:
            imgs_np[:, :, :, :p] = 0.0
            ctx.count("silent_crop_cases", "cols")

    imgs = torch.tensor(imgs_np)
    w0 = rng.integers(-8, 9, size=(K, cout)) / 4.0
    b0 = rng.integers(-4, 5, size=K) / 4.0
    q0 = (rng.integers(-4, 5, size=K) / 4.0) if dsc["head"] == "poly" else np.zeros(K)
    head0 = Head(w0, b0, q0).eval()
    ctx.count("activations", "4-D" if spatial else "2-D")

    cr = CraftTorch(ext, head0, number_of_concepts=r, batch_size=bs, patch_size=p, device="cpu")
    ok, res = ctx.impl_call(dsc, lambda: cr.fit(imgs, class_id=cid))
    if not ok:
        ctx.case(dsc, False)
        return
    crops, u, wbank = res
    fit_calls = list(ext.calls)

    # ---- crops: exact data movement ---------------------------------------------------------
    rp = ctx.driver.call({"op": "craft_patches", "c": C, "h": H, "w": W, "p": p, "imgs": enc(imgs_np.reshape(N, -1))})
    ncrops = N * int(rp["per_image"])
    ctx.check_prop("row-counts", tuple(u.shape) == (crops.shape[0], r) and tuple(wbank.shape) == (r, cout), dsc,
                   {"crops": list(crops.shape), "u": list(u.shape), "w": list(wbank.shape), "r": r, "channels": cout})
    ctx.check_corr("craft_crop_count", [crops.shape[0]], [Fraction(ncrops)], dsc, rtol=0, atol=0)
    if tuple(crops.shape) == (ncrops, C, p, p):
        ctx.check_corr("craft_patches", crops.reshape(ncrops, -1), rp["patches"], dsc, rtol=0, atol=0)
    ctx.check_prop("nonneg-factors", float(u.min()) >= 0 and float(wbank.min()) >= 0, dsc,
                   {"u_min": float(u.min()), "w_min": float(wbank.min())})
    rc = ctx.driver.call({"op": "craft_chunks", "bs": bs, "len": int(crops.shape[0])})
    ctx.check_corr("craft_chunks_fit", fit_calls, rc["chunks"], dsc, rtol=0, atol=0)
    ctx.check_prop("calls-le-batch-size", max(fit_calls) <= bs, dsc, {"calls": fit_calls, "bs": bs})

    # ---- transform ---------------------------------------------------------------------------
    local = dsc["local"]
    x_in = imgs[:max(1, N // 2)] if local else imgs
    nin = int(x_in.shape[0])
    ext.calls = []
    ok, t = ctx.impl_call(dsc, lambda: cr.transform(x_in))
    if not ok:
        ctx.case(dsc, False)
        return
    tr_calls = list(ext.calls)
    rc = ctx.driver.call({"op": "craft_chunks", "bs": bs, "len": nin})
    ctx.check_corr("craft_chunks_transform", tr_calls, rc["chunks"], dsc, rtol=0, atol=0)
    with torch.no_grad():
        acts = ext(x_in)
    if spatial:
        acts = acts.permute(0, 2, 3, 1)
    acts = acts.numpy()
    reducer = cr.factorization.reducer
    rows = acts.reshape(-1, acts.shape[-1]).astype(reducer.components_.dtype)
    want_t = reducer.transform(rows).reshape(acts.shape[:-1] + (r,))
    scale_t = max(1.0, float(np.abs(want_t).max()))
    ctx.check_prop("transform-shape", tuple(t.shape) == tuple(want_t.shape), dsc,
                   {"got": list(t.shape), "want": list(want_t.shape)})
    if tuple(t.shape) != tuple(want_t.shape):
        ctx.case(dsc, False)
        return
    dev = float(np.abs(t - want_t).max())
    ctx.check_prop("transform-is-nmf-of-activation", dev <= 1e-4 * scale_t, dsc, {"maxdev": dev})
    ctx.check_prop("nonneg-transform", float(t.min()) >= 0, dsc, {"min": float(t.min())})
    # NMF hypothesis: transform acts row-wise (re-validated, never a violation of CRAFT)
    pick = rng.choice(rows.shape[0], size=min(3, rows.shape[0]), replace=False)
    dev_row = max(float(np.abs(reducer.transform(rows[i:i + 1])[0] - want_t.reshape(-1, r)[i]).max()) for i in pick)
    ctx.count("nmf_hypothesis_rowwise", "ok" if dev_row <= 1e-3 * scale_t else "violated")
    ctx.count("nmf_hypothesis_nonneg", "ok" if float(want_t.min()) >= 0 and float(reducer.components_.min()) >= 0
              else "violated")
    # batch size independence
    cr.batch_size = bs2
    ok, t2 = ctx.impl_call(dsc, lambda: cr.transform(x_in))
    if ok:
        dev = maxdev(t2, t)
        ctx.check_prop("transform-batch-indep", tuple(t2.shape) == tuple(t.shape) and dev <= 1e-5 * scale_t, dsc,
                       {"maxdev": dev, "bs": bs, "bs2": bs2})
    cr.batch_size = bs
    # inputs of ANOTHER spatial size than the fitted images (added after a seeded sticky fit-time resize was missed):
    # the coefficients are those of the activation of the input as given
    for tag, x_o in (("cropped", imgs[:2, :, :max(3, H - 2), :max(3, W - 1)]), ("fit-crops", _np_to_t(crops[:3]))):
        dd = dict(dsc, other_size=tag)
        ok, t3 = ctx.impl_call(dd, lambda: cr.transform(x_o))
        if not ok:
            continue
        with torch.no_grad():
            a_o = ext(x_o)
        a_o = (a_o.permute(0, 2, 3, 1) if spatial else a_o).numpy()
        want3 = reducer.transform(a_o.reshape(-1, a_o.shape[-1]).astype(reducer.components_.dtype)).reshape(a_o.shape[:-1] + (r,))
        good = tuple(np.shape(t3)) == tuple(want3.shape)
        dev = float(np.abs(np.asarray(t3) - want3).max()) if good else float("inf")
        ctx.check_prop("transform-other-size-is-nmf-of-activation", good and dev <= 1e-4 * max(1.0, float(np.abs(want3).max())), dd,
                       {"got": list(np.shape(t3)), "want": list(want3.shape), "maxdev": dev})
    ext.calls = []

    # ---- head chosen after the fit -------------------------------------------------------------
    bank = np.array(cr.factorization.concept_bank_w, dtype=np.float64)
    ignore = dsc.get("ignore")
    wh = w0.copy()
    if ignore is not None and dsc["head"] == "lin" and float(bank[ignore] @ bank[ignore]) > 1e-8:
        wi = bank[ignore]
        wh = wh - np.outer(wh @ wi, wi) / float(wi @ wi)
    else:
        ignore = None
    wh = wh.astype(np.float32)
    head = Head(wh, b0, q0).eval()
    cr.latent_to_logit_model = head

    if dsc.get("silent"):
        # the silent-crop cases are about fit / transform (one row per crop, factors, coefficients); their bias-free,
        # offset-free activations are mostly zero, so the class logit barely varies under concept masking and the importance
        # estimate is float32 noise (found on the unchanged tree in the thorough tier) - importances are judged on the
        # other cases only
        ctx.case(dsc, True)
        return

    def importance():
        return cr.estimate_importance(inputs=x_in if local else None, nb_design=nd)
    ok, imp = ctx.impl_call(dsc, importance)
    if not ok:
        ctx.case(dsc, False)
        return
    ctx.check_prop("importance-shape", tuple(np.shape(imp)) == (r,), dsc, {"shape": list(np.shape(imp))})
    # conditioning guard of the tolerance lane: when the masked logits barely vary (head nearly orthogonal
    # to the whole bank) the float32 logits are noise relative to their variance -> no numeric comparison
    cond = []
    for coeff in np.asarray(t, dtype=np.float64).reshape(nin, -1, r):
        ya = np.array([((coeff * m[None, :]) @ bank).mean(0) @ wh[cid].astype(np.float64) for m in
                       HaltonSequenceRS()(r, nd)[:nd].astype(np.float64)])
        cond.append(float(ya.var(ddof=1)) / max(1e-12, float(np.max(np.abs(ya + b0[cid])) ** 2)))
    if dsc["head"] == "lin" and min(cond) < 1e-5:
        ctx.count("ill_conditioned_skipped")
        ctx.case(dsc, False)
        return
    ctx.check_prop("head-calls-le-batch-size", max(head.calls) <= bs, dsc, {"max": max(head.calls), "bs": bs})
    masks = HaltonSequenceRS()(r, nd)
    poly = {"const": enc(fr(np.float32(b0[cid]))), "lin": enc([fr(v) for v in wh[cid]]),
            "quad": ([[0, 1, enc(fr(np.float32(q0[cid])))]] if dsc["head"] == "poly" else [])}
    u_in = t if not spatial else t.reshape(nin, -1, r)
    op = {"op": "craft_importance", "dim": 4 if spatial else 2, "n": nd, "r": r, "bs": bs, "W": enc(bank.astype(np.float32)),
          "masks": enc(masks), "head": poly, "U": enc(np.asarray(u_in, dtype=np.float64))}
    rm = ctx.driver.call(op)
    scale = max(1.0, float(np.nanmax(np.abs(imp))) if np.all(np.isfinite(imp)) else 1.0)
    nontrivial = bool(np.all(np.isfinite(imp))) and len(set(np.round(np.asarray(imp), 6).tolist())) > 1 \
        and int(rp["per_image"]) >= 2
    ctx.case(dsc, nontrivial)
    if any(v is None for v in rm["spec"]):
        ctx.count("importance_undefined")
        ctx.check_prop("importance-is-jansen", not np.all(np.isfinite(imp)), dsc,
                       {"note": "Jansen undefined (zero variance) for some input but importances finite"})
        return
    tol = dict(rtol=5e-3, atol=2e-5, scale=scale)
    ctx.check_corr("craft_importance_impl_model", imp, rm["impl"], dsc, **tol)
    ctx.check_pred("importance-is-jansen", imp, rm["spec"], dsc, **tol)
    ctx.check_prop("importance-nonneg", bool(np.all(np.asarray(imp) >= -1e-7)), dsc, {"imp": np.asarray(imp).tolist()})
    if ignore is not None:
        ctx.count("ignored_concept_cases")
        ctx.check_prop("importance-zero-ignored", abs(float(imp[ignore])) <= 1e-5 * scale, dsc,
                       {"ignored": ignore, "imp": np.asarray(imp).tolist()})
    # positive affine rescaling of the logits
    alpha = float(rng.choice([0.5, 2.0, 3.0, 7.0]))
    beta = float(rng.integers(-5, 6))
    cr.latent_to_logit_model = Head(wh, b0, q0, alpha=alpha, beta=beta).eval()
    ok, imp_a = ctx.impl_call(dsc, importance)
    if ok:
        dev = maxdev(imp_a, imp)
        ctx.check_prop("importance-affine-invariant", dev <= 2e-3 * scale, dsc,
                       {"alpha": alpha, "beta": beta, "maxdev": dev, "imp": np.asarray(imp).tolist(),
                        "imp_affine": np.asarray(imp_a).tolist()})
    # ... at every scale of the logits (powers of two keep float32 exact; no offset, which would swamp tiny logits)
    alpha2 = float(2.0 ** int(rng.choice([-14, -18, 12])))
    cr.latent_to_logit_model = Head(wh, b0, q0, alpha=alpha2, beta=0.0).eval()
    ok, imp_s = ctx.impl_call(dsc, importance)
    if ok:
        dev = maxdev(imp_s, imp)
        ctx.check_prop("importance-scale-invariant", dev <= 2e-3 * scale, dsc,
                       {"alpha": alpha2, "maxdev": dev, "imp": np.asarray(imp).tolist(), "imp_scaled": np.asarray(imp_s).tolist()})
    # batch size independence of the importances
    cr.latent_to_logit_model = head
    cr.batch_size = bs2
    ok, imp_b = ctx.impl_call(dsc, importance)
    if ok:
        dev = maxdev(imp_b, imp)
        ctx.check_prop("importance-batch-indep", dev <= 1e-3 * scale, dsc, {"maxdev": dev, "bs": bs, "bs2": bs2})
    # global importances are stored on the object
    if not local:
        s = cr.sensitivity
        ctx.check_prop("sensitivity-stored", s is not None and maxdev(s.importances, imp_b if ok else imp) <= 1e-3 * scale,
                       dsc)
    # ---- added after seeded changes were missed --------------------------------------------------------
    cr.batch_size = bs
    if spatial:
        # (a) a head that USES the spatial structure (row-dependent weights): exchanging the two spatial axes
        #     of the perturbed activations changes its logits when the activation map is not square
        import torch as _t
        from xplique.attributions.global_sensitivity_analysis import JansenEstimator

        class RowHead(_t.nn.Module):
            def forward(self, a):                      # a: (M, C, h, w)
                a = a.float()
                roww = _t.linspace(1.0, 3.0, a.shape[2])
                pooled = (a * roww[None, None, :, None]).mean((2, 3))
                return pooled @ _t.tensor(wh, dtype=_t.float32).T + _t.tensor(b0, dtype=_t.float32)
        cr.latent_to_logit_model = RowHead().eval()
        ok, imp_r = ctx.impl_call(dsc, importance, signature="spatial-head")
        if ok:
            tt = np.asarray(t, dtype=np.float64)       # (nin, h, w, r) validated above against the NMF of the activations
            hh = tt.shape[1]
            roww = np.linspace(1.0, 3.0, hh)
            msk = np.asarray(HaltonSequenceRS()(r, nd), dtype=np.float64)
            ref = []
            for coeff in tt:
                a = (coeff[None] * msk[:, None, None, :]) @ bank            # (M, h, w, C)
                pooled = (a * roww[None, :, None, None]).mean((1, 2))
                y = pooled @ wh[cid].astype(np.float64) + float(b0[cid])
                ref.append(np.asarray(JansenEstimator()(msk, y.astype(np.float32), nd), dtype=np.float64))
            ref = np.mean(ref, 0)
            if np.all(np.isfinite(ref)) and float(np.ptp(ref)) > 1e-4:
                sc = max(1.0, float(np.abs(ref).max()))
                ctx.count("spatial_head_cases", "h!=w" if tt.shape[1] != tt.shape[2] else "h==w")
                ctx.check_prop("importance-is-jansen-spatial-head", bool(np.allclose(imp_r, ref, rtol=5e-3, atol=5e-4 * sc)), dsc,
                               {"got": np.asarray(imp_r).tolist(), "reference": ref.tolist(), "activation_hw": list(tt.shape[1:3])})
        cr.latent_to_logit_model = head
    if not local:
        # (b) re-fit on another dataset: global importances must be those of the NEW dataset
        imgs_b = _np_to_t(np.ascontiguousarray(imgs_np[::-1] * 0.5 + 0.25))
        ok, _ = ctx.impl_call(dsc, lambda: cr.fit(imgs_b, class_id=cid), signature="refit")
        if ok:
            cr.latent_to_logit_model = head
            ok1, g = ctx.impl_call(dsc, lambda: cr.estimate_importance(nb_design=nd), signature="refit-importance")
            ok2, e = ctx.impl_call(dsc, lambda: cr.estimate_importance(inputs=imgs_b, nb_design=nd), signature="refit-importance")
            if ok1 and ok2 and np.all(np.isfinite(e)):
                sc = max(1.0, float(np.abs(e).max()))
                ctx.count("refit_cases")
                ctx.check_prop("importance-after-refit-uses-new-dataset", bool(np.allclose(g, e, rtol=2e-3, atol=1e-4 * sc)), dsc,
                               {"global_after_refit": np.asarray(g).tolist(), "explicit_new_dataset": np.asarray(e).tolist()})



def gen_cases(ctx):
    rng = ctx.rng
    thorough = ctx.tier == "thorough"
    ncase = (80 if thorough else 18) * ctx.budget_scale
    cases = []
    for i in range(ncase):
        spatial = bool(i % 2)
        p = int(rng.integers(3, 8))
        H = int(rng.integers(p, p + 8))
        W = int(rng.integers(p, p + 8))
        if H == W:
            W += int(rng.integers(1, 4))
        r = int(rng.integers(2, 6 if thorough else 5))
        cout = int(rng.integers(max(3, r), 8))
        N = int(rng.integers(2, 7 if thorough else 5))
        K = int(rng.integers(2, 5))
        bs = int(rng.choice([1, 2, 3, 5, 64]))
        bs2 = int(rng.choice([b for b in [1, 2, 4, N + 1, 64] if b != bs]))
        head = "lin" if rng.random() < 0.6 else "poly"
        cases.append({"spatial": spatial, "N": N, "C": int(rng.choice([1, 3])), "H": H, "W": W, "p": p, "r": r,
                      "cout": cout, "K": K, "class_id": int(rng.integers(K)), "bs": bs, "bs2": bs2,
                      "nb_design": int(rng.choice([4, 8, 16])), "head": head,
                      "ignore": int(rng.integers(r)) if head == "lin" and rng.random() < 0.7 else None,
                      "local": bool(rng.random() < 0.3), "case_seed": int(rng.integers(1 << 31))})
        if i % 6 == 5:
            cases[-1]["silent"] = True
    return cases


def run(ctx):
    for dsc in corpus_cases() + gen_cases(ctx):
        run_case(ctx, dsc)


def extra(ctx):
    return {"model_parameters_and_hypotheses": [
        "sklearn NMF (fit_transform / transform / components_): parameter of the model with the hypothesis 'non-negative, "
        "one row per input row, transform acts row-wise', re-validated on every case (see distribution.nmf_hypothesis_*)",
        "torch feature extractor (incl. bilinear resize of the crops) and head: per-sample parameters; the head's class "
        "logit is a polynomial of the (pooled) activation whose coefficients are known to both sides",
        "torch.nn.functional.unfold window order (row-major windows, (C, p, p) patches): modelled, compared exactly",
        "Halton replicated design: computed by the implementation's HaltonSequenceRS and passed exactly",
        "tolerance lane guard: cases whose masked logits have relative variance < 1e-5 (head numerically orthogonal to the "
        "whole concept bank) are skipped and counted as ill_conditioned_skipped",
    ]}


def replay(ctx, r):
    run_case(ctx, r["case"] if "case" in r else r["first_disagreement"][0])
