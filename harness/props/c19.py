"""C19 - feature-visualisation objectives combine linearly and without side effects.

Implementation: xplique.features_visualizations.Objective (+, -, *, compile) and the image
parametrisations of preconditioning.py.  Model: Lean Obj.run / Obj.compileLoss / Obj.compileNames /
Obj.toValid.
"""
import itertools

import numpy as np

from common import enc, fr

RULE = ("cases = random expression-building programs (3-9 statements over +, -, scalar * with dyadic "
        "coefficients, re-using intermediate objects, both `o*c` and `c*o`) over 2-4 atoms "
        "(layer / channel / neuron / direction objectives with 1-3 targets) of a small random functional "
        "Keras model; the real Objective objects are built and compiled, multipliers of EVERY object are "
        "read back and compared with the Lean heap model, the compiled objective_function is applied to "
        "random model outputs and compared with the Lean compileLoss on the atoms' own losses; plus image "
        "parametrisation cases (size, range, normaliser). distinct = descriptor hash; non-trivial = the "
        "program has >= 1 sub and >= 1 mul, or the image is not constant")

_MODEL = {}


def get_model(tf, seed):
    if seed in _MODEL:
        return _MODEL[seed]
    rng = np.random.default_rng(seed)
    inp = tf.keras.Input((5, 5, 3))
    c = tf.keras.layers.Conv2D(3, 2, name=f"conv{seed}")(inp)
    f = tf.keras.layers.Flatten(name=f"flat{seed}")(c)
    d = tf.keras.layers.Dense(4, name=f"dense{seed}")(f)
    m = tf.keras.Model(inp, d)
    for v in m.trainable_variables:
        v.assign(rng.integers(-2, 3, size=v.shape).astype(np.float32) / 2.0)
    _MODEL[seed] = m
    return m


def build_atom(tf, Objective, model, seed, kind, a, rng):
    mult = float(rng.choice([1.0, 1.0, 0.5, 2.0, -1.0]))
    if kind == "layer":
        names = [f"A{a}T0"]
        o = Objective.layer(model, f"conv{seed}", reducer=str(rng.choice(["magnitude", "mean"])),
                            multiplier=mult, name=names)
        return o, 1
    if kind == "channel":
        ids = [int(i) for i in rng.permutation(3)[: int(rng.integers(1, 4))]]
        names = [f"A{a}T{t}" for t in range(len(ids))]
        return Objective.channel(model, f"conv{seed}", ids, multiplier=mult, names=names), len(ids)
    if kind == "neuron":
        ids = [int(i) for i in rng.permutation(4)[: int(rng.integers(1, 4))]]
        names = [f"A{a}T{t}" for t in range(len(ids))]
        return Objective.neuron(model, f"dense{seed}", ids, multiplier=mult, names=names), len(ids)
    vec = rng.integers(-2, 3, size=(4,)).astype(np.float32)
    if not np.any(vec):
        vec[0] = 1.0
    names = [f"A{a}T0"]
    return Objective.direction(model, f"dense{seed}", vec, multiplier=mult, names=names), 1


def obj_value(o):
    """(atom id, multiplier) list of a real Objective, atoms identified by the names we gave"""
    out = []
    for nm, m in zip(o.names, o.multipliers):
        first = nm[0] if isinstance(nm, (list, tuple, np.ndarray)) else nm
        out.append((int(first[1:first.index("T")]), fr(m)))
    return out


def run_objective_case(ctx, d):
    import tensorflow as tf
    from xplique.features_visualizations import Objective
    rng = np.random.default_rng(d["case_seed"])
    mseed = d["model_seed"]
    model = get_model(tf, mseed)
    kinds = d["atoms"]
    ok, built = ctx.impl_call(d, lambda: [build_atom(tf, Objective, model, mseed, k, a, rng) for a, k in enumerate(kinds)])
    if not ok:
        ctx.case(d, False)
        return
    objs = [b[0] for b in built]
    nT = [b[1] for b in built]
    heap0 = [obj_value(o) for o in objs]
    snapshots = [list(v) for v in heap0]
    prog = d["prog"]

    class Impure(Exception):
        pass

    def execute(objs_, check=True):
        for st in prog:
            if st[0] == "add":
                objs_.append(objs_[st[1]] + objs_[st[2]])
            elif st[0] == "sub":
                objs_.append(objs_[st[1]] - objs_[st[2]])
            else:
                c = float(fr_str(st[2]))
                objs_.append(objs_[st[1]] * c if st[3] else c * objs_[st[1]])
            if check:
                # stop at the first operand modified in place (aliasing can make objects grow without bound)
                for i_ in range(len(objs_) - 1):
                    if obj_value(objs_[i_]) != snapshots[i_]:
                        raise Impure(i_)
                snapshots.append(obj_value(objs_[-1]))
            if len(objs_[-1].multipliers) > 4096:
                raise Impure(len(objs_) - 1)
        return objs_

    ok = True
    try:
        execute(objs)
    except Impure as e:
        i_ = e.args[0]
        ctx.case(d, True)
        ctx.check_prop("operators-pure", False, d, {"changed_object": i_, "at_creation": str(snapshots[i_])[:300],
                                                    "now": str(obj_value(objs[i_]))[:300], "after_statement": len(objs) - len(kinds)})
        return
    except Exception as e:  # noqa: BLE001
        ctx.check_prop("implementation-raises", False, d, {"exception": (type(e).__name__ + ": " + str(e))[:400]})
        ok = False
    if not ok:
        ctx.case(d, False)
        return
    final_vals = [obj_value(o) for o in objs]
    lean_heap = ctx.driver.call({"op": "obj_run", "heap": [[[a, enc(m)] for a, m in v] for v in heap0],
                                 "prog": [[s[0], s[1], s[2]] for s in prog]})
    lean_vals = [[(int(a), m) for a, m in v] for v in lean_heap]
    nsub = sum(1 for s in prog if s[0] == "sub")
    nmul = sum(1 for s in prog if s[0] == "mul")
    ctx.case(d, nsub >= 1 and nmul >= 1)
    ctx.count("prog_len", len(prog))
    ctx.count("atom_kinds", "+".join(sorted(set(kinds))))
    # purity: every object still has the value it had when it was created
    pure = all(final_vals[i] == snapshots[i] for i in range(len(objs)))
    ctx.check_prop("operators-pure", pure, d,
                   {"changed": [i for i in range(len(objs)) if final_vals[i] != snapshots[i]][:5],
                    "at_creation": str(snapshots[:4]), "now": str(final_vals[:4])})
    # correspondence of the whole heap
    same = len(lean_vals) == len(final_vals) and all(lean_vals[i] == final_vals[i] for i in range(len(final_vals)))
    if same:
        ctx.lanes["exact"] += 1
    else:
        ctx.corr_failures.append(("obj_heap_model", d, {"impl": str(final_vals[-3:]), "model": str(lean_vals[-3:])}))
    # building the same expression twice gives the same objective
    objs2 = objs[: len(kinds)]
    ok, objs2 = ctx.impl_call(d, lambda: execute(list(objs2), check=False))
    if ok:
        ctx.check_prop("build-twice-same", obj_value(objs2[-1]) == snapshots[len(kinds) + len(prog) - 1], d,
                       {"first": str(snapshots[len(kinds) + len(prog) - 1]), "second": str(obj_value(objs2[-1]))})
    # compile the last object (and one random intermediate)
    for idx in sorted({len(objs) - 1, int(rng.integers(len(kinds), len(objs)))}):
        compile_check(ctx, d, tf, rng, objs[idx], lean_vals[idx] if same else final_vals[idx], objs[: len(kinds)], nT, idx)


def fr_str(s):
    from fractions import Fraction
    if isinstance(s, str):
        a, b = s.split("/")
        return Fraction(int(a), int(b))
    return Fraction(s)


def compile_check(ctx, d, tf, rng, obj, val, atoms, nT, idx):
    if len(val) > 5:
        return
    ncomb = int(np.prod([nT[a] for a, _ in val]))
    if ncomb > 24:
        return
    ok, comp = ctx.impl_call(d, obj.compile, signature="compile")
    if not ok:
        return
    model_r, fn, names, input_shape = comp
    ctx.check_prop("cartesian-product", int(input_shape[0]) == ncomb and len(names) == ncomb, d,
                   {"nb_inputs": int(input_shape[0]), "nb_names": len(names), "expected": ncomb, "object": idx})
    x = rng.integers(-2, 3, size=(ncomb,) + tuple(input_shape[1:])).astype(np.float32) / 2.0
    def apply():
        outs_ = model_r(x)
        if not isinstance(outs_, (list, tuple)):
            outs_ = [outs_]      # as optim._get_optimisation_step does for a single output
        return outs_, fn(outs_)
    ok, res = ctx.impl_call(d, apply, signature="objective_function")
    if not ok:
        return
    outs, loss = res
    loss = np.broadcast_to(np.asarray(loss, dtype=np.float32), (ncomb,))
    # loss tables of the atoms: L[r][a][t], from each atom's OWN loss function and masks
    pos_of_atom = {}
    for k, (a, _) in enumerate(val):
        pos_of_atom.setdefault(a, k)
    natoms = len(atoms)
    table = [[[0] * nT[a] for a in range(natoms)] for _ in range(ncomb)]
    for a, k in pos_of_atom.items():
        out_a = outs[k]
        masks_a = np.asarray(atoms[a].masks[0], dtype=np.float32)
        for t in range(nT[a]):
            tiled = np.repeat(masks_a[t][None], ncomb, axis=0)
            v = np.asarray(atoms[a].funcs[0](out_a, tf.constant(tiled, out_a.dtype)), dtype=np.float32)
            v = np.broadcast_to(v, (ncomb,))
            for r in range(ncomb):
                table[r][a][t] = enc(v[r])
    nm = [[f"A{a}T{t}" for t in range(nT[a])] for a in range(natoms)]
    r = ctx.driver.call({"op": "obj_compile", "obj": [[a, enc(m)] for a, m in val], "nT": nT,
                         "L": table, "names": nm})
    scale = max(1.0, float(np.max(np.abs(loss))), max(abs(float(fr_str(v))) if isinstance(v, str) else abs(v)
                                                        for row in table for at in row for v in at))
    ctx.check_pred("compiled-loss-is-linear-combination", loss, r["loss"], d, rtol=1e-4, atol=1e-5, scale=scale * len(val))
    ctx.check_prop("cartesian-product-names", [str(n) for n in names] == list(r["names"]), d,
                   {"impl": [str(n) for n in names][:6], "model": list(r["names"])[:6]})
    ctx.count("compiled_subobjectives", len(val))
    ctx.count("combinations", ncomb)


def run_image_case(ctx, d):
    import tensorflow as tf
    from xplique.features_visualizations import preconditioning as pc
    rng = np.random.default_rng(d["case_seed"])
    s, ch, lo, hi, norm, b = d["size"], d["channels"], d["lo"], d["hi"], d["normalizer"], d["batch"]
    ctx.case(d, True)
    ctx.count("image_kind", d["kind"])
    if d["kind"] == "fft":
        def impl():
            buf = pc.fft_image((b, s, s, ch), std=1.0)
            scale = pc.get_fft_scale(s, s, decay_power=1.0)
            return pc.fft_to_rgb((b, s, s, ch), buf, scale).numpy()
        ok, img = ctx.impl_call(d, impl)
        if ok:
            ctx.check_prop("image-shape", tuple(img.shape) == (b, s, s, ch), d, {"got": list(img.shape)})
        return
    if d["kind"] == "maco":
        def impl():
            mag = tf.constant(np.abs(rng.normal(size=(ch, s, s // 2 + 1))).astype(np.float32))
            ph = tf.constant(rng.normal(size=(ch, s, s // 2 + 1)).astype(np.float32))
            return pc.maco_image_parametrization(mag, ph, (float(lo), float(hi))).numpy()
        ok, img = ctx.impl_call(d, impl)
        if ok:
            ctx.check_prop("image-range", bool(np.all(img >= lo - 1e-6) and np.all(img <= hi + 1e-6)), d,
                           {"min": float(img.min()), "max": float(img.max())})
            ctx.check_prop("image-shape", img.shape[-1] == ch and img.shape[0] == s, d, {"got": list(img.shape)})
        return
    raw = (rng.integers(-8, 9, size=(b, s, s, ch)) / 4.0).astype(np.float32)
    normalizer = norm if norm in ("sigmoid", "clip") else (lambda t: tf.nn.tanh(t) * 0.5 + 0.25)
    f = pc.to_valid_rgb if ch == 3 else pc.to_valid_grayscale
    ok, img = ctx.impl_call(d, lambda: f(tf.constant(raw), normalizer, (float(lo), float(hi))).numpy())
    if not ok:
        return
    ctx.check_prop("image-shape", tuple(img.shape) == raw.shape, d, {"got": list(img.shape)})
    # normalised pixel values, recomputed with the same TF primitives (trusted), rescaled by Lean
    t = tf.constant(raw)
    if ch == 3:
        t = pc.recorrelate_colors(t)
    if norm == "sigmoid":
        t = tf.nn.sigmoid(t)
    elif norm == "clip":
        t = tf.clip_by_value(t, float(lo), float(hi))
    else:
        t = normalizer(t)
    t = t.numpy()
    for k in range(b):
        constant = float(t[k].max()) == float(t[k].min())
        r = ctx.driver.call({"op": "to_valid", "lo": enc(lo), "hi": enc(hi), "img": enc(t[k].reshape(-1))})
        if r is None or constant:
            ctx.count("constant_image")
            continue
        ctx.check_corr("to_valid_model", img[k].reshape(-1), r, d, rtol=1e-5, atol=1e-5, scale=max(abs(lo), abs(hi), 1))
        ctx.check_prop("image-range", bool(np.all(img[k] >= lo - 1e-5) and np.all(img[k] <= hi + 1e-5)
                                           and abs(float(img[k].min()) - lo) < 1e-4 and abs(float(img[k].max()) - hi) < 1e-4),
                       d, {"min": float(img[k].min()), "max": float(img[k].max()), "lo": lo, "hi": hi})


def run_default_names_case(ctx, d):
    """leaves created with DEFAULT names, compiled more than once (alone, inside an expression, again)"""
    import tensorflow as tf
    from xplique.features_visualizations import Objective
    rng = np.random.default_rng(d["case_seed"])
    mseed = d["model_seed"]
    model = get_model(tf, mseed)
    ch = sorted(int(i) for i in rng.permutation(3)[: int(rng.integers(1, 4))])
    ne = sorted(int(i) for i in rng.permutation(4)[: int(rng.integers(1, 4))])
    ctx.case(d, True)
    ctx.count("default_names_cases")

    def build():
        a = Objective.channel(model, f"conv{mseed}", ch)
        b = Objective.neuron(model, f"dense{mseed}", ne)
        c = Objective.direction(model, f"dense{mseed}", np.ones(4, np.float32))
        return a, b, c
    ok, leaves = ctx.impl_call(d, build, signature="default-names")
    if not ok:
        return
    a, b, c = leaves
    want_a = [f"Channel#conv{mseed}_{i}" for i in ch]
    want_b = [f"Neuron#dense{mseed}_{i}" for i in ne]
    want_c = [f"Direction#dense{mseed}_0"]
    want_expr = [" & ".join(t) for t in itertools.product(want_a, want_b, want_c)]
    seq = [("expr", lambda: (a + 2.0 * b - c).compile(), want_expr), ("leaf-a", lambda: a.compile(), want_a),
           ("expr-again", lambda: (a + 2.0 * b - c).compile(), want_expr), ("leaf-b", lambda: b.compile(), want_b),
           ("leaf-a-again", lambda: a.compile(), want_a)]
    for tag, fn, want in seq:
        ok, comp = ctx.impl_call(d, fn, signature="compile:" + tag)
        if not ok:
            return
        _, _, names, input_shape = comp
        got = [str(v) for v in names]
        ctx.check_prop("cartesian-product-names", got == want and int(input_shape[0]) == len(want), d,
                       {"compile": tag, "names": got[:6], "expected": want[:6], "nb_inputs": int(input_shape[0])})


def gen_cases(ctx):
    rng = ctx.rng
    thorough = ctx.tier == "thorough"
    cases = []
    nprog = (400 if thorough else 40) * ctx.budget_scale
    coefs = ["1/2", "2/1", "3/1", "-1/1", "-2/1", "-1/2", "3/2", "-3/1"]
    for _ in range(nprog):
        na = int(rng.integers(2, 5))
        kinds = [str(rng.choice(["layer", "channel", "neuron", "direction"])) for _ in range(na)]
        if all(k in ("layer", "direction") for k in kinds):
            kinds[0] = "channel"
        prog = []
        n = na
        for _s in range(int(rng.integers(3, 10 if thorough else 8))):
            op = str(rng.choice(["add", "sub", "mul", "mul", "sub"]))
            if op == "mul":
                prog.append(["mul", int(rng.integers(n)), str(rng.choice(coefs)), bool(rng.integers(2))])
            else:
                prog.append([op, int(rng.integers(n)), int(rng.integers(n))])
            n += 1
        cases.append({"type": "objective", "atoms": kinds, "prog": prog, "model_seed": int(rng.integers(3)),
                      "case_seed": int(rng.integers(1 << 31))})
    for _ in range((40 if thorough else 6) * ctx.budget_scale):
        cases.append({"type": "default-names", "model_seed": int(rng.integers(3)), "case_seed": int(rng.integers(1 << 31))})
    nimg = (120 if thorough else 24) * ctx.budget_scale
    for _ in range(nimg):
        kind = str(rng.choice(["valid", "valid", "fft", "maco"]))
        lo, hi = [(0, 1), (-1, 3), (2, 5), (-1, 1)][int(rng.integers(4))]
        cases.append({"type": "image", "kind": kind, "size": int(rng.integers(3, 10)),
                      "channels": int(rng.choice([1, 3])), "lo": lo, "hi": hi,
                      "normalizer": str(rng.choice(["sigmoid", "clip", "callable"])),
                      "batch": int(rng.integers(1, 3)), "case_seed": int(rng.integers(1 << 31))})
    return cases


def run_case(ctx, d):
    if d["type"] == "objective":
        run_objective_case(ctx, d)
    elif d["type"] == "default-names":
        run_default_names_case(ctx, d)
    else:
        run_image_case(ctx, d)


def run(ctx):
    for d in gen_cases(ctx):
        run_case(ctx, d)


def replay(ctx, r):
    run_case(ctx, r["case"] if "case" in r else r["first_disagreement"][0])
