"""C06 - Occlusion equals its reference definition for every geometry.

Implementation: xplique.attributions.Occlusion on a recording NumPy polynomial model.
Model: Lean `Occl.explain` (uses the generated anchor arithmetic); Spec: Lean `Occl.specOne`.
"""
import itertools
import json
import os

import numpy as np

from common import PolyModel, enc, small_ints, VERIF

RULE = ("cases = (data kind, sample shape, patch size, stride, occlusion value, batch size, N) drawn from "
        "a seeded generator (quick: small exhaustive geometry sweep on tabular + sampled 2-D; thorough: "
        "larger bounds); each case runs xplique.Occlusion on a random non-additive integer polynomial "
        "model and compares with the Lean Impl model (same batch size) and with the Lean reference Spec; "
        "distinct = distinct descriptor hash; non-trivial = at least one patch exists and the map is not constant")


def geom_json(kind, shape, patch, stride):
    if kind == "tab":
        return {"kind": "tab", "w": shape[0], "p": patch, "s": stride}
    pa, pb = patch if isinstance(patch, (tuple, list)) else (patch, patch)
    sa, sb = stride if isinstance(stride, (tuple, list)) else (stride, stride)
    c = shape[2] if len(shape) == 3 else 1
    return {"kind": "two", "a": shape[0], "b": shape[1], "c": c, "pa": pa, "pb": pb, "sa": sa, "sb": sb}


def run_case(ctx, d):
    from xplique.attributions import Occlusion
    rng = np.random.default_rng(d["case_seed"])
    shape = tuple(d["shape"])
    n = d["N"]
    nflat = int(np.prod(shape))
    model = PolyModel(rng, nflat, nc=2, quad=3, cub=1 if nflat > 2 else 0)
    x = small_ints(rng, (n,) + shape, -2, 2)
    y = small_ints(rng, (n, 2), -2, 2)
    patch = tuple(d["patch"]) if isinstance(d["patch"], list) else d["patch"]
    stride = tuple(d["stride"]) if isinstance(d["stride"], list) else d["stride"]
    v = d["v"]
    bs = d["bs"]
    def impl():
        expl = Occlusion(model, batch_size=bs, patch_size=patch, patch_stride=stride, occlusion_value=float(v))
        return expl(x, y).numpy()
    ok, out = ctx.impl_call(d, impl)
    if not ok:
        ctx.case(d, False)
        return
    g = geom_json(d["kind"], shape, patch, stride)
    r = ctx.driver.call({"op": "occl", "geom": g, "polys": model.json(), "v": enc(v), "bs": bs,
                         "xs": enc(x.reshape(n, -1)), "ys": enc(y)})
    impl_m, spec = r["impl"], r["spec"]
    exp_shape = (n,) + shape[:2] + ((1,) if len(shape) == 3 else ())
    if d["kind"] == "tab":
        exp_shape = (n, shape[0])
    nontrivial = r["nmasks"] > 0 and len(set(np.round(out.reshape(-1), 6).tolist())) > 1
    ctx.case(d, nontrivial)
    ctx.count("kind", d["kind"])
    ctx.count("bs_vs_masks", "none" if bs is None else ("lt" if bs < r["nmasks"] else "ge"))
    ctx.count("overlap", "overlap" if np.any(np.array(patch) > np.array(stride)) else
              ("gap" if np.any(np.array(patch) < np.array(stride)) else "tile"))
    ctx.check_prop("shape", tuple(out.shape) == exp_shape, d, {"got": list(out.shape), "want": list(exp_shape)})
    ctx.check_prop("dtype", str(out.dtype) == "float32", d, {"dtype": str(out.dtype)})
    if tuple(out.shape) == exp_shape:
        ctx.check_corr("occl_impl_model", out.reshape(n, -1), impl_m, d)
        ctx.check_pred("reference-definition", out.reshape(n, -1), spec, d)
    if bs is not None:
        ctx.check_prop("calls_le_batch_size", max(model.calls) <= bs, d, {"max_call": max(model.calls), "bs": bs})


def gen_cases(ctx):
    rng = ctx.rng
    thorough = ctx.tier == "thorough"
    scale = ctx.budget_scale
    cases = []

    def add(kind, shape, patch, stride, v=None, bs="rand", n=None):
        n_ = int(rng.integers(1, 4)) if n is None else n
        d = {"kind": kind, "shape": list(shape), "patch": patch, "stride": stride,
             "v": v if v is not None else [0, 1, -1, 0.5][int(rng.integers(4))],
             "N": n_, "case_seed": int(rng.integers(1 << 31))}
        d["bs"] = [None, 1, 2, 3, 5, 64][int(rng.integers(6))] if bs == "rand" else bs
        cases.append(d)

    # tabular: exhaustive geometry for small widths
    wmax = 12 if thorough else 6
    for w in range(1, wmax + 1):
        for p in range(1, w + 1):
            for s in range(1, w + 1):
                if thorough or rng.random() < 0.5 * scale:
                    add("tab", (w,), p, s)
    # time series (T, W) and images (H, W, C): per-axis and scalar geometry
    n2d = (1200 if thorough else 45) * scale
    for _ in range(n2d):
        kind = "ts" if rng.random() < 0.35 else "img"
        a, b = int(rng.integers(1, 7 if not thorough else 13)), int(rng.integers(1, 7 if not thorough else 13))
        if a == b and rng.random() < 0.7:
            b = b % (12 if thorough else 6) + 1
        shape = (a, b) if kind == "ts" else (a, b, int(rng.integers(1, 4)))
        if rng.random() < 0.3:
            p = int(rng.integers(1, min(a, b) + 1))
            s = int(rng.integers(1, min(a, b) + 1))
            add(kind, shape, p, s)
        else:
            pa, pb = int(rng.integers(1, a + 1)), int(rng.integers(1, b + 1))
            sa, sb = int(rng.integers(1, a + 1)), int(rng.integers(1, b + 1))
            if rng.random() < 0.5:
                add(kind, shape, [pa, pb], [sa, sb])
            else:   # mixed: tuple patch + scalar stride
                add(kind, shape, [pa, pb], int(rng.integers(1, min(a, b) + 1)))
    return cases


def corpus_cases():
    p = os.path.join(VERIF, "corpus", "C06")
    out = []
    if os.path.isdir(p):
        for fn in sorted(os.listdir(p)):
            if fn.endswith(".json"):
                out.append(json.load(open(os.path.join(p, fn))))
    return out


def run(ctx):
    for d in corpus_cases() + gen_cases(ctx):
        run_case(ctx, d)


def replay(ctx, r):
    run_case(ctx, r["case"] if "case" in r else r["first_disagreement"][0])
