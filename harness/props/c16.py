"""C16 - similar-example search returns exactly the k nearest cases.

Implementation: xplique.example_based.SimilarExamples (KNN search method, harmonize_datasets,
Projection, dataset_gather) on integer data.
Model: Lean `TopK.knnImpl` (batched running top-k with the generated batch-size clamp / cardinality /
flat-index arithmetic, stable sort); Spec: Lean `TopK.knnSpec` (brute force, no batches).

The helpers of this module (data builders, container builders, distance / projection tables,
tie-tolerant validators) are shared with props/c17.py.
"""
import json
import os
from fractions import Fraction

import numpy as np

from common import VERIF, enc, compare, fr

RULE = ("cases = (N, feature shape, duplicated rows, queries (some equal to cases), k, batch size, container, "
        "distance, projection, case_returns) drawn from a seeded generator; quick: N<=12, small exhaustive "
        "(N,bs,k) sweep + sampled configurations; thorough: N<=40, exhaustive (N,bs,k)<=7, many more samples. "
        "Each case runs xplique SimilarExamples on integer data and compares tie-tolerantly with the Lean "
        "batched Impl model (same effective batch size) and with the Lean brute-force Spec: the sorted "
        "distance list must be equal (exact lane: L1/Linf/weighted-L1/squared; root / cosine through the exact "
        "order-equivalent key, tolerance lane), every returned (index, distance, example, label) is validated "
        "against the dataset through the Lean dataset_gather / flat index, rows must be distinct. "
        "distinct = descriptor hash; non-trivial = N>=2, the keys of a query are not all equal")

BIG = 1 << 22     # above this the float32 sums are not trusted to be exact -> tolerance comparisons


# --------------------------------------------------------------------------------------
# distances: implementation argument, Lean kind, monotone map key -> distance
# --------------------------------------------------------------------------------------
def dist_table(dd, m, three_args=False, fill=np.inf):
    """dd: descriptor {"name":..., "w":[...]?}; m: projected width.
    returns (implementation distance argument, lean json, root(key Fraction)->float|Fraction, exact_lane)"""
    import tensorflow as tf
    name = dd["name"]

    def ident(v):
        return v

    def wrap3(f2):
        if not three_args:
            return f2
        return lambda a, b, msk: tf.where(msk, f2(a, b), fill)

    if name == "manhattan":
        return "manhattan", {"kind": "l1"}, ident, True
    if name in ("chebyshev", "inf", "npinf"):
        return (np.inf if name == "npinf" else name), {"kind": "linf"}, ident, True
    if name == "euclidean":
        return "euclidean", {"kind": "lp", "p": 2}, (lambda v: float(v) ** 0.5), True
    if name.startswith("mink"):
        p = int(name[4:])
        if p == 1:
            return 1, {"kind": "lp", "p": 1}, ident, True
        return p, {"kind": "lp", "p": p}, (lambda v: float(v) ** (1.0 / p)), p == 2
    if name == "cosine":
        def root(v):
            f = float(v)
            return 1.0 + (1.0 if f > 0 else -1.0 if f < 0 else 0.0) * abs(f) ** 0.5
        return "cosine", {"kind": "cos"}, root, False
    if name == "call_wl1":
        w = np.array(dd["w"], dtype=np.float32)
        wt = tf.constant(w)
        return wrap3(lambda a, b: tf.reduce_sum(tf.abs(a - b) * wt, -1)), {"kind": "wl1", "w": enc(w)}, ident, True
    if name == "call_sq":
        return wrap3(lambda a, b: tf.reduce_sum((a - b) ** 2, -1)), {"kind": "lp", "p": 2}, ident, True
    raise ValueError(name)


def gen_dist(rng, m, allow_cos=True, positive_w=False):
    names = ["manhattan", "euclidean", "chebyshev", "inf", "npinf", "mink1", "mink2", "mink3", "mink4",
             "call_wl1", "call_sq"] + (["cosine"] if allow_cos else [])
    p = np.array([4, 4, 2, 1, 1, 1, 1, 2, 1, 2, 1] + ([1] if allow_cos else []), dtype=float)
    name = names[int(rng.choice(len(names), p=p / p.sum()))]
    dd = {"name": name}
    if name == "call_wl1":
        dd["w"] = [int(v) for v in rng.integers(1 if positive_w else 0, 4, size=m)]
    return dd


# --------------------------------------------------------------------------------------
# projections
# --------------------------------------------------------------------------------------
def gen_proj(rng, nflat, nc, allow_target=True):
    """descriptor of the projection; all weights are small integers"""
    kind = ["none", "fn", "space", "wconst", "space+wconst", "wtarget", "space+wtarget"][
        int(rng.choice(7, p=[0.4, 0.08, 0.1, 0.14, 0.12, 0.08, 0.08]))]
    if not allow_target and "wtarget" in kind:
        kind = "space+wconst"
    pd = {"kind": kind}
    m = nflat
    if kind in ("fn", "space", "space+wconst", "space+wtarget"):
        m = int(rng.integers(1, 5))
        pd["A"] = rng.integers(-2, 3, size=(nflat, m)).tolist()
    if "wconst" in kind:
        pd["w"] = [int(v) for v in rng.integers(-1, 4, size=m)]
        pd["wtype"] = ["np", "tf"][int(rng.integers(2))]
    if "wtarget" in kind:
        pd["B"] = rng.integers(0, 3, size=(nc, m)).tolist()
    pd["mappable"] = bool(rng.integers(2))
    pd["m"] = m
    return pd


def build_proj(pd, shape):
    """returns (projection argument for the explainer, lean json)"""
    import tensorflow as tf
    from xplique.example_based.projections import Projection
    kind = pd["kind"]
    lean = {"space": None, "wconst": None, "wtarget": None}
    if kind == "none":
        return None, lean
    nflat = int(np.prod(shape))
    space = None
    out_shape = tuple(shape)
    if "A" in pd:
        A = np.array(pd["A"], dtype=np.float32)
        At = tf.constant(A)
        space = lambda z: tf.matmul(tf.reshape(z, (-1, nflat)), At)   # noqa: E731
        lean["space"] = enc(A)
        out_shape = (A.shape[1],)
    if kind == "fn":
        return space, lean
    weights = None
    if "w" in pd:
        w = np.array(pd["w"], dtype=np.float32).reshape(out_shape)
        weights = w if pd.get("wtype") == "np" else tf.constant(w)
        lean["wconst"] = enc(w.reshape(-1))
    if "B" in pd:
        B = np.array(pd["B"], dtype=np.float32)
        Bt = tf.constant(B)
        weights = lambda z, t: tf.reshape(tf.matmul(tf.cast(t, tf.float32), Bt), (-1,) + out_shape)   # noqa: E731
        lean["wtarget"] = enc(B)
    return Projection(get_weights=weights, space_projection=space, mappable=pd.get("mappable", False)), lean


# --------------------------------------------------------------------------------------
# data and containers
# --------------------------------------------------------------------------------------
def make_data(rng, N, shape, n, nc, lo=-3, hi=3, dup=0.3, label_kind="scalar", mode=None):
    X = rng.integers(lo, hi + 1, size=(N,) + tuple(shape)).astype(np.float32)
    for i in range(1, N):                       # duplicated points
        if rng.random() < dup:
            X[i] = X[int(rng.integers(i))]
    Q = rng.integers(lo, hi + 1, size=(n,) + tuple(shape)).astype(np.float32)
    for i in range(n):                          # queries sitting on a case (distance 0, symmetric ties)
        if rng.random() < 0.3:
            Q[i] = X[int(rng.integers(N))]
    if mode == "sparse-dense":
        # first rows: one large coordinate (small Euclidean norm, large max-norm); later rows: every coordinate +-1 (large
        # Euclidean norm, small max-norm); queries near the origin.  The norms of different orders rank the cases
        # differently, and the nearest cases for chebyshev / Minkowski p >= 3 sit in the LAST batches
        # (added after a seeded norm-based batch pruning was missed)
        m = int(np.prod(shape))
        Xf = np.zeros((N, m), np.float32)
        half = max(1, N // 2)
        for i in range(N):
            if i < half:
                Xf[i, int(rng.integers(m))] = float(rng.choice([-3, 3]))
            else:
                Xf[i] = rng.choice([-1.0, 1.0], size=m)
        X = Xf.reshape((N,) + tuple(shape))
        Q = np.zeros((n,) + tuple(shape), np.float32)
    if mode == "offset":
        # a large common offset of cases and queries changes no distance between them (a crossed-distance routine that expands
        # ||x||^2 - 2<x,z> + ||z||^2 in float32 does change): Minkowski / Chebyshev / Euclidean / Manhattan only
        X = X + np.float32(4096.0)
        Q = Q + np.float32(4096.0)
    if label_kind == "scalar":
        L = (10 + np.arange(N)).astype(np.int64)
    elif label_kind == "bigint":        # integers that float32 cannot represent (returned labels must be the originals)
        L = (16777217 + 2 * np.arange(N)).astype(np.int64)
    elif label_kind == "float":
        L = (10 + np.arange(N)).astype(np.float32)
    else:  # "vec": one row per case (needed for unbatched single-column label datasets)
        L = np.stack([10 + np.arange(N), 100 - np.arange(N)], axis=1).astype(np.int64)
    return X, Q, L


def make_targets(rng, N, nc, mode="onehot", classes=None):
    if classes is None:
        classes = rng.integers(0, nc, size=N)
    if mode == "onehot":
        return np.eye(nc, dtype=np.float32)[classes], np.asarray(classes)
    # small integer score rows whose first arg-max is the class (ties in the row possible)
    T = rng.integers(0, 3, size=(N, nc)).astype(np.float32)
    for i, c in enumerate(classes):
        T[i, c] = T[i].max() + (1 if (T[i, :c] == T[i].max()).any() else 0)
    return T, np.asarray(classes)


CONTAINERS = ["np", "tf", "torch", "ds_b1", "ds_b2", "ds_b3", "ds_u1", "ds_u2", "ds_u3", "dl_1", "dl_2", "dl_3"]


def build_container(cont, X, L, T, bs):
    """kwargs (cases_dataset / labels_dataset / targets_dataset / batch_size) for an example-based
    constructor. L or T may be None (then the container must not need them)."""
    import tensorflow as tf
    ds = tf.data.Dataset.from_tensor_slices
    kw = {}
    if cont in ("np", "tf", "torch"):
        if cont == "np":
            conv = lambda a: a                      # noqa: E731
        elif cont == "tf":
            conv = tf.constant
        else:
            import torch
            conv = torch.tensor
        kw["cases_dataset"] = conv(X)
        if L is not None:
            kw["labels_dataset"] = conv(L)
        if T is not None:
            kw["targets_dataset"] = conv(T)
        kw["batch_size"] = bs
        return kw
    ncol = int(cont[-1])
    if cont.startswith("dl_"):
        # torch.utils.data.DataLoader (batched by construction, never shuffled): bare tensors for one column,
        # TensorDataset tuples for (cases, labels[, targets])
        import torch
        from torch.utils.data import DataLoader, TensorDataset
        tt = lambda a: torch.tensor(np.asarray(a))          # noqa: E731
        dl = lambda *cols: DataLoader(cols[0] if len(cols) == 1 else TensorDataset(*cols),   # noqa: E731
                                      batch_size=bs, shuffle=False)
        if ncol == 1:
            kw["cases_dataset"] = dl(tt(X))
            if L is not None:
                kw["labels_dataset"] = dl(tt(L))
            if T is not None:
                kw["targets_dataset"] = dl(tt(T))
        elif ncol == 2:
            kw["cases_dataset"] = dl(tt(X), tt(L))
            if T is not None:
                kw["targets_dataset"] = dl(tt(T))
        else:
            kw["cases_dataset"] = dl(tt(X), tt(L), tt(T))
        return kw
    batched = cont.startswith("ds_b")
    fin = (lambda d: d.batch(bs)) if batched else (lambda d: d)
    if ncol == 1:
        kw["cases_dataset"] = fin(ds(X))
        if L is not None:
            kw["labels_dataset"] = fin(ds(L))
        if T is not None:
            kw["targets_dataset"] = fin(ds(T))
    elif ncol == 2:
        kw["cases_dataset"] = fin(ds((X, L)))
        if T is not None:
            kw["targets_dataset"] = fin(ds(T))
    else:
        kw["cases_dataset"] = fin(ds((X, L, T)))
    if not batched:
        kw["batch_size"] = bs
    return kw


def flat2(a, n):
    return np.asarray(a, dtype=np.float64).reshape(n, -1)


# --------------------------------------------------------------------------------------
# tie-tolerant comparison helpers
# --------------------------------------------------------------------------------------
def rooted(keys, root):
    """Lean keys (Fraction | None) -> distances (Fraction | float | None)"""
    return [None if v is None else root(v) for v in keys]


def close(impl_v, model_v, exact):
    """one implementation float vs one model distance (None = inf)"""
    st, _ = compare([impl_v], [model_v], rtol=(2e-6 if exact else 1e-4), atol=(0.0 if exact else 1e-5),
                    scale=scale_of([model_v]))
    return st in ("exact", "tol")


def scale_of(model):
    """magnitude for compare(); common.compare cannot derive it when the model holds None (= inf)"""
    from common import flat
    return max([abs(float(v)) for v in flat(model) if v is not None] + [1.0])


def tol_kw(model, exact):
    kw = {"scale": scale_of(model)}
    if not exact:
        kw.update(rtol=1e-4, atol=1e-5)
    return kw


def max_key(keys):
    return max([abs(v) for row in keys for v in row if v is not None] + [0])


def validate_slots(ctx, d, prefix, dist_rows, rows, want_rows, X, L, out, exact, k, N, unfilled_ok=True):
    """per-slot validation of the implementation's output against the dataset.
    dist_rows[i][r]: model distance (rooted) of query i to dataset row r (None = inf / masked);
    rows[i][j]: dataset row gathered by the Lean dataset_gather at the implementation's index (or -1)."""
    n = len(rows)
    dist = out.get("distances")
    ex = out.get("examples")
    lab = out.get("labels")
    off = 1 if (ex is not None and "include_inputs" in d["returns_list"]) else 0
    for i in range(n):
        seen = set()
        for j in range(k):
            r = rows[i][j]
            if r >= 0:
                ctx.check_prop(prefix + "distinct-cases", r not in seen, d, {"query": i, "slot": j, "row": r})
                seen.add(r)
                if dist is not None:
                    ctx.check_prop(prefix + "distance-of-returned-index", close(dist[i, j], dist_rows[i][r], exact), d,
                                   {"query": i, "slot": j, "row": r, "impl": float(dist[i, j]),
                                    "true": None if dist_rows[i][r] is None else float(dist_rows[i][r])})
                if ex is not None:
                    ctx.check_prop(prefix + "example-at-index", np.array_equal(ex[i, j + off], X[r]), d,
                                   {"query": i, "slot": j, "row": r})
                if lab is not None:
                    ctx.check_prop(prefix + "label-at-index", np.array_equal(lab[i, j], L[r]), d,
                                   {"query": i, "slot": j, "row": r, "impl": np.asarray(lab[i, j]).tolist()})
            else:
                # unfilled slot: infinite distance, fill example / label
                if dist is not None:
                    ctx.check_prop(prefix + "unfilled-slot-infinite", bool(np.isposinf(dist[i, j])), d,
                                   {"query": i, "slot": j, "impl": float(dist[i, j])})
                if ex is not None:
                    ctx.check_prop(prefix + "unfilled-slot-example", bool(np.all(np.isposinf(ex[i, j + off]))), d,
                                   {"query": i, "slot": j})


def corpus_cases(prop):
    p = os.path.join(VERIF, "corpus", prop)
    out = []
    if os.path.isdir(p):
        for fn in sorted(os.listdir(p)):
            if fn.endswith(".json"):
                out.append(json.load(open(os.path.join(p, fn))))
    return out


def returns_list(ret, possibilities):
    return list(possibilities) if ret == "all" else ([ret] if isinstance(ret, str) else list(ret))


def np_out(out):
    return {k_: (v.numpy() if hasattr(v, "numpy") else np.asarray(v)) for k_, v in out.items()}


def gather_rows(ctx, N, bs_req, idx):
    """Lean dataset_gather + generated flat index on the implementation's (batch, position) pairs"""
    n, k = idx.shape[0], idx.shape[1]
    r = ctx.driver.call({"op": "gather", "n": N, "bs": bs_req, "idx": idx.reshape(-1, 2).tolist()})
    rows = np.array([int(v) for v in r["rows"]]).reshape(n, k)
    flat = np.array([int(v) for v in r["flat"]]).reshape(n, k)
    return rows, flat, r


FINDING_SIGS = {
    "D8-multi": "unbatched multi-column dataset, batch_size > N",
    "D8-single": "unbatched single-column dataset, batch_size > N",
    "scalar-labels": "unbatched labels_dataset of scalar labels",
}


# --------------------------------------------------------------------------------------
# one case
# --------------------------------------------------------------------------------------
def run_case(ctx, d):
    import tensorflow as tf  # noqa: F401
    from xplique.example_based import SimilarExamples
    rng = np.random.default_rng(d["case_seed"])
    N, shape, n, k, bs, cont = d["N"], tuple(d["shape"]), d["n"], d["k"], d["bs"], d["container"]
    nc = 3
    nflat = int(np.prod(shape))
    X, Q, L = make_data(rng, N, shape, n, nc, dup=d.get("dup", 0.3), label_kind=d.get("labels", "scalar"), mode=d.get("dmode"))
    T, _ = make_targets(rng, N, nc, mode=d.get("tmode", "onehot"))
    QT, _ = make_targets(rng, n, nc, mode=d.get("tmode", "onehot"))
    use_labels = d.get("labels") is not None
    use_targets = bool(d.get("targets"))
    pd = d["proj"]
    proj, lean_proj = build_proj(pd, shape)
    m = pd.get("m", nflat)
    dist_arg, lean_dist, root, exact = dist_table(d["dist"], m)
    ret = d["returns"]
    possibilities = ["examples", "distances", "labels", "include_inputs"]
    rl = returns_list(ret, possibilities)
    d["returns_list"] = rl
    kw = build_container(cont, X, L if use_labels else None, T if use_targets else None, bs)
    finding = d.get("finding")

    def impl():
        meth = SimilarExamples(k=k, projection=proj, case_returns=ret, distance=dist_arg, **kw)
        out = meth(Q, QT if use_targets else None)
        card = int(meth.cases_dataset.cardinality().numpy())
        if card < 0:        # generator-backed datasets (torch DataLoader): cardinality unknown to tf.data, count the batches
            card = sum(1 for _ in meth.cases_dataset)
        return np_out(out), int(meth.batch_size), card

    if finding:
        ok, res = ctx.impl_call(d, impl, clause="dataset-container", signature=FINDING_SIGS[finding])
        ctx.count("finding_probe", finding + (":ok" if ok else ":raises"))
    else:
        ok, res = ctx.impl_call(d, impl)
    if not ok:
        ctx.case(d, False)
        return
    out, impl_bs, impl_card = res

    op = {"op": "knn", "cases": enc(flat2(X, N)), "queries": enc(flat2(Q, n)), "proj": lean_proj,
          "dist": lean_dist, "k": k, "bs": bs,
          "ctargets": enc(T) if use_targets else None, "qtargets": enc(QT) if use_targets else None}
    r = ctx.driver.call(op)
    keys = r["keys"]
    if max_key(keys) >= BIG:
        exact = False
    ctx.count("lane", "exact-order" if exact else "tolerance")
    ctx.count("container", cont)
    ctx.count("distance", d["dist"]["name"])
    ctx.count("projection", pd["kind"] + ("+map" if pd.get("mappable") and pd["kind"] not in ("none", "fn") else ""))
    ctx.count("shape_rank", len(shape))
    bsz = int(r["bsz"])
    ctx.count("batching", "none" if bs is None else ("bs>N" if bs > N else "bs==N" if bs == N else
                                                     ("remainder" if N % bs else "divides")))
    ctx.count("k_vs_batch", "k>bs" if k > bsz else "k<=bs")
    ctx.count("k", "k==N" if k == N else ("k>N" if k > N else "k<N"))
    nontrivial = N >= 2 and any(len(set(row)) > 1 for row in keys)
    has_ties = any(len(set(row)) < len(row) for row in keys)
    ctx.count("ties_in_keys", has_ties)
    ctx.case({kk: v for kk, v in d.items() if kk != "returns_list"}, nontrivial)

    # ---- harmonisation arithmetic (generated defs) ----
    ctx.check_corr("harmonize_batch_card", [impl_bs, impl_card], [r["bsz"], r["card"]], d)
    ctx.check_prop("model-card-is-number-of-batches", r["card"] == r["nbatches"], d)

    # ---- returned keys and shapes ----
    want = set(x for x in rl if x != "include_inputs")
    if "labels" in want and not use_labels:
        want.discard("labels")
    ctx.check_prop("returned-keys", set(out.keys()) == want, d, {"got": sorted(out.keys()), "want": sorted(want)})
    inc = 1 if "include_inputs" in rl else 0
    shapes = {"examples": (n, k + inc) + shape, "distances": (n, k), "labels": (n, k) + L.shape[1:],
              "indices": (n, k, 2)}
    for key_, v in out.items():
        if key_ in shapes:
            ctx.check_prop("shape-" + key_, tuple(v.shape) == shapes[key_], d,
                           {"got": list(v.shape), "want": list(shapes[key_])})
            if tuple(v.shape) != shapes[key_]:
                return
    spec = [rooted(row, root) for row in r["spec"]]
    model = [rooted([e[0] for e in row], root) for row in r["impl"]]
    dist_rows = [rooted(row, root) for row in keys]
    if "distances" in out:
        # Impl model (same batch size): equal sorted key lists
        ctx.check_corr("knn_impl_model_distances", out["distances"], model, d, **tol_kw(model, exact))
        # property: exactly the k smallest distances, increasing, padded with inf
        ctx.check_pred("k-smallest-distances-sorted", out["distances"], spec, d, **tol_kw(spec, exact))
    if "include_inputs" in rl and "examples" in out:
        ctx.check_prop("include-inputs-first", np.array_equal(out["examples"][:, 0], Q), d)
    if "indices" in out:
        idx = out["indices"].astype(np.int64)
        ok_range = bool(np.all((idx >= 0) | (idx == -1)))
        ctx.check_prop("indices-wellformed", ok_range, d, {"indices": idx.tolist()})
        if not ok_range:
            return
        rows, flat, g = gather_rows(ctx, N, bs, idx)
        ctx.check_prop("flat-index-is-row", bool(np.all((rows < 0) | (rows == flat))), d,
                       {"rows": rows.tolist(), "flat": flat.tolist()})
        if k <= N:
            ctx.check_prop("all-slots-filled", bool(np.all(rows >= 0)), d, {"rows": rows.tolist()})
        else:
            ctx.check_prop("number-of-filled-slots", bool(np.all((rows >= 0).sum(axis=1) == N)), d,
                           {"rows": rows.tolist()})
        validate_slots(ctx, d, "", dist_rows, rows, None, X, L if use_labels else None, out, exact, k, N)
        same = [[int(e[1]), int(e[2])] for row in r["impl"] for e in row] == idx.reshape(-1, 2).tolist()
        ctx.count("tie_order_equals_stable_model", same)
    elif "examples" in out:
        # no indices requested: every example must be a dataset row at the reported distance / label
        ex = out["examples"][:, inc:]
        for i in range(n):
            for j in range(k):
                if np.all(np.isposinf(ex[i, j])):
                    ctx.check_prop("unfilled-only-when-k>N", k > N, d, {"query": i, "slot": j})
                    continue
                cands = [t for t in range(N) if np.array_equal(X[t], ex[i, j])]
                if "distances" in out:
                    cands = [t for t in cands if close(out["distances"][i, j], dist_rows[i][t], exact)]
                if "labels" in out:
                    cands = [t for t in cands if np.array_equal(out["labels"][i, j], L[t])]
                ctx.check_prop("example-is-a-case-at-that-distance", len(cands) > 0, d, {"query": i, "slot": j})


# --------------------------------------------------------------------------------------
# generator
# --------------------------------------------------------------------------------------
RETURN_CHOICES = [
    ["examples", "distances", "labels", "indices"],
    ["examples", "distances", "labels", "indices", "include_inputs"],
    ["distances", "indices"],
    ["examples", "indices"],
    ["labels", "indices", "distances"],
    "all", "examples", "distances", "labels",
    ["examples", "include_inputs"], ["examples", "labels"], ["distances", "labels", "include_inputs"],
    ["examples", "distances"],
]


def gen_shape(rng, thorough):
    r = rng.random()
    hi = 7 if thorough else 5
    if r < 0.5:
        return [int(rng.integers(1, hi + 1))]
    if r < 0.75:
        return [int(rng.integers(1, 4)), int(rng.integers(1, 4))]
    return [int(rng.integers(1, 4)), int(rng.integers(1, 4)), int(rng.integers(1, 3))]


def gen_one(rng, thorough, N=None, bs="rand", k=None, container=None, simple=False):
    nmax = 40 if thorough else 12
    if N is None:
        N = int(rng.integers(1, nmax + 1)) if rng.random() < 0.8 else int(rng.integers(1, 5))
    shape = [int(rng.integers(1, 4))] if simple else gen_shape(rng, thorough)
    nflat = int(np.prod(shape))
    cont = container or CONTAINERS[int(rng.choice(len(CONTAINERS), p=[.26, .09, .09, .09, .09, .07, .05, .07, .07, .04, .04, .04]))]
    if bs == "rand":
        choices = list(range(1, N + 2))
        bs = int(choices[int(rng.integers(len(choices)))])
        if cont in ("np", "tf", "torch") and rng.random() < 0.1:
            bs = None
        if cont.startswith("dl_") and bs is None:
            bs = N
        if cont.startswith("ds_u") and bs > N:
            bs = N            # batch_size > N on an unbatched dataset is the separate D8 clause
    if k is None:
        k = int(rng.integers(1, N + 1))
        if rng.random() < 0.06:
            k = N + int(rng.integers(1, 3))       # more requested than available: padded with inf
    proj = {"kind": "none", "mappable": False, "m": nflat} if simple else gen_proj(rng, nflat, 3)
    targets = "wtarget" in proj["kind"] or cont.endswith("3") or rng.random() < 0.15
    dist = {"name": "manhattan"} if simple else gen_dist(rng, proj["m"])
    ret = RETURN_CHOICES[0] if simple else RETURN_CHOICES[int(rng.choice(len(RETURN_CHOICES), p=np.array(
        [6, 3, 2, 1, 1, 1, .5, .5, .5, .5, .5, .5, .5]) / 17.5))]
    labels = "scalar"
    if cont in ("ds_u1",):
        labels = "vec"          # unbatched scalar label datasets are the separate 'scalar-labels' clause
    elif rng.random() < 0.2:
        labels = ["float", "vec"][int(rng.integers(2))]
    rl = returns_list(ret, ["examples", "distances", "labels", "include_inputs"])
    if "labels" not in rl and not cont.endswith(("2", "3")) and rng.random() < 0.5:
        labels = None
    if dist["name"] == "cosine":
        pass
    return {"N": N, "shape": shape, "n": int(rng.integers(1, 4)), "k": k, "bs": bs, "container": cont,
            "dist": dist, "proj": proj, "returns": ret, "labels": labels, "targets": bool(targets),
            "tmode": "onehot" if rng.random() < 0.6 else "scores",
            "dup": float([0.0, 0.3, 0.6][int(rng.integers(3))]), "case_seed": int(rng.integers(1 << 31))}


def finding_cases(rng):
    out = []
    for cont, f in (("ds_u2", "D8-multi"), ("ds_u3", "D8-multi"), ("ds_u1", "D8-single")):
        N = int(rng.integers(2, 6))
        d = gen_one(rng, False, N=N, bs=N + 1, k=int(rng.integers(1, N + 1)), container=cont, simple=True)
        d["finding"] = f
        if cont == "ds_u1":
            d["labels"] = "vec"
        out.append(d)
    N = int(rng.integers(2, 6))
    d = gen_one(rng, False, N=N, bs=int(rng.integers(1, N + 1)), k=1, container="ds_u1", simple=True)
    d["labels"] = "scalar"
    d["finding"] = "scalar-labels"
    out.append(d)
    return out


def gen_cases(ctx):
    rng = ctx.rng
    thorough = ctx.tier == "thorough"
    scale = ctx.budget_scale
    cases = []
    # exhaustive small scope over (N, bs, k): NumPy container, L1, no projection
    nmax = 7 if thorough else 4
    for N in range(1, nmax + 1):
        for bs in list(range(1, N + 2)):
            for k in range(1, N + 1):
                if thorough or rng.random() < 0.45 * scale:
                    cases.append(gen_one(rng, thorough, N=N, bs=bs, k=k, container="np", simple=True))
    for _ in range((2200 if thorough else 120) * scale):
        cases.append(gen_one(rng, thorough))
    # directed: norms of different orders disagree (sparse vs dense rows), nearest cases in the last batches
    for j in range((40 if thorough else 6) * scale):
        N = int(rng.integers(6, 13))
        d = gen_one(rng, thorough, N=N, bs=int(rng.integers(2, 4)), k=int(rng.integers(1, 3)),
                    container=["np", "ds_b1", "tf"][j % 3], simple=True)
        d.update(shape=[int(rng.integers(9, 17))], dmode="sparse-dense", dup=0.0,
                 dist={"name": ["chebyshev", "mink3", "npinf", "mink4", "inf", "euclidean"][j % 6]})
        d["proj"] = {"kind": "none", "mappable": False, "m": d["shape"][0]}
        cases.append(d)
    # common offset of cases and queries (translation-invariant distances, no projection)
    for j in range((40 if thorough else 6) * scale):
        d = gen_one(rng, thorough, container=["np", "ds_b1", "tf", "torch"][j % 4], simple=True)
        d.update(dmode="offset", shape=[int(rng.integers(2, 6))],
                 dist={"name": ["euclidean", "manhattan", "chebyshev", "mink3", "mink2", "npinf"][j % 6]})
        d["proj"] = {"kind": "none", "mappable": False, "m": d["shape"][0]}
        cases.append(d)
    # labels that float32 cannot represent
    for j in range((12 if thorough else 3) * scale):
        d = gen_one(rng, thorough, container=["np", "ds_b2", "tf"][j % 3], simple=True)
        d.update(labels="bigint", returns=["examples", "distances", "labels", "indices"])
        cases.append(d)
    return cases


def run_checked(ctx, d):
    from common import DriverErr
    try:
        run_case(ctx, d)
    except DriverErr as e:
        if str(e) == "cos-undefined":      # a projected vector is 0: cosine distance is NaN, not part of the property
            ctx.count("cosine_undefined_replaced")
            d = dict(d)
            d["dist"] = {"name": "euclidean"}
            d.pop("returns_list", None)
            run_case(ctx, d)
        else:
            raise


def run(ctx):
    for d in corpus_cases("C16"):
        run_checked(ctx, d)
    for d in finding_cases(ctx.rng):
        run_checked(ctx, d)
    for d in gen_cases(ctx):
        run_checked(ctx, d)
    from props import c16_reuse
    for d in c16_reuse.gen_extra_cases(ctx.rng, ctx.tier == "thorough", ["similar"]):
        c16_reuse.run_extra(ctx, d)


def describe(d):
    """the concrete arrays of a case (for a human reading a replay)"""
    rng = np.random.default_rng(d["case_seed"])
    X, Q, L = make_data(rng, d["N"], tuple(d["shape"]), d["n"], 3, dup=d.get("dup", 0.3),
                        label_kind=d.get("labels") or "scalar")
    T, _ = make_targets(rng, d["N"], 3, mode=d.get("tmode", "onehot"))
    QT, _ = make_targets(rng, d["n"], 3, mode=d.get("tmode", "onehot"))
    print("replay case:", json.dumps({k_: v for k_, v in d.items() if k_ != "returns_list"}))
    print(" cases X =", X.tolist(), "\n labels L =", L.tolist(), "\n queries Q =", Q.tolist())
    if d.get("targets"):
        print(" case targets T =", T.tolist(), "\n query targets =", QT.tolist())


def replay(ctx, r):
    d = r["case"] if "case" in r else r["first_disagreement"][0]
    d = dict(d)
    if d.get("family"):
        from props import c16_reuse
        c16_reuse.run_extra(ctx, d)
        return
    d.pop("returns_list", None)
    describe(d)
    run_checked(ctx, d)
    for f in ctx.prop_failures[:6]:
        print(" failing predicate:", f[0], f[3])


def extra(ctx):
    return {"assumptions_specific": [
        "tf.argsort + tf.gather return a permutation sorted by the key (tie order NOT assumed, except in the two "
        "*_stable theorems of C17 where the earlier column wins ties, as tf.argsort does)",
        "tf.data batching order: dataset.batch(b) yields xs[i*b:(i+1)*b] in order (model `batches`)",
        "float32 sqrt / pow are monotone on the generated integer keys (ordering compared through exact d^p)",
        "tf.argmax returns the first maximal index"]}
