"""Extra C18 family added after two seeded changes were missed: a custom kernel whose DIAGONAL is not constant
(k(a,b) = 1/(1+|a-b|^2) + a.b/16, positive definite, k(a,a) = 1 + |a|^2/16), checked against a dense NumPy
reference: documented MMDCritic selection, ProtoGreedy weights max((K_S + eps I)^-1 mu_S, 0) on the implementation's
own selection, batching independence, and local explanations under the kernel-induced distance (distance=None)."""
import numpy as np


def kmat(a, b):
    a = a.astype(np.float64); b = b.astype(np.float64)
    d2 = ((a[:, None] - b[None]) ** 2).sum(-1)
    return 1.0 / (1.0 + d2) + (a @ b.T) / 16.0


def run_case(ctx, d):
    import tensorflow as tf
    from xplique.example_based import ProtoGreedy, ProtoDash, MMDCritic
    rng = np.random.default_rng(d["case_seed"])
    n, dim, m, k, meth = d["N"], d["d"], d["m"], d["k"], d["meth"]
    pts = set()
    while len(pts) < n:                                  # distinct integer points (no duplicated rows)
        pts.add(tuple(int(v) for v in rng.integers(-8, 9, size=dim)))     # 17^dim >= 17 > n: enough distinct points
    x = np.array(sorted(pts), dtype=np.float32)[rng.permutation(n)]
    labels = rng.integers(0, 3, size=n).astype(np.float32)[:, None]
    q = rng.integers(-4, 5, size=(d["nq"], dim)).astype(np.float32)
    K = kmat(x, x)
    mu = K.mean(0)
    cls = {"greedy": ProtoGreedy, "dash": ProtoDash, "mmd": MMDCritic}[meth]

    def kf(a, b):
        d2 = tf.reduce_sum((a[:, None] - b[None]) ** 2, -1)
        return 1.0 / (1.0 + d2) + tf.matmul(a, b, transpose_b=True) / 16.0
    ctx.case(d, True)
    ctx.count("nonconstant_diagonal_kernel", meth)
    runs = []
    for bs in d["bss"]:
        def build(bs=bs):
            p = cls(x, labels_dataset=labels, nb_global_prototypes=m, nb_local_prototypes=k, batch_size=bs,
                    kernel_fn=kf, distance=None, case_returns=["distances", "indices", "labels"])
            g = p.get_global_prototypes()
            return p, g, p(q)
        ok, r = ctx.impl_call(dict(d, bs=bs), build, signature="custom-kernel")
        if not ok:
            return
        runs.append((bs,) + r)
    flats, ws = [], []
    for bs, p, g, out in runs:
        dd = dict(d, bs=bs)
        be = int(p.batch_size)
        idx = np.asarray(g["prototypes_indices"].numpy())
        w = np.asarray(g["prototypes_weights"].numpy(), dtype=np.float64)
        flat = idx[:, 0] * be + idx[:, 1]
        flats.append(flat.tolist()); ws.append(w)
        ctx.check_prop("distinct-cases", len(set(flat.tolist())) == m and all(0 <= v < n for v in flat), dd, {"flat": flat.tolist()})
        ctx.check_prop("weights-simplex", bool(np.all(w >= -1e-7) and abs(w.sum() - 1.0) < 1e-4), dd, {"w": w.tolist()})
        S = flat.tolist()
        if meth == "mmd":
            # documented objective from the full kernel matrix: first maximiser at every step (gap-guarded)
            sel = []
            for step in range(m):
                obj = np.array([2 * mu[c] - (K[c, c] + 2 * sum(K[s, c] for s in sel)) / (len(sel) + 1) if c not in sel else -np.inf
                                for c in range(n)])
                best = int(np.argmax(obj))
                second = np.partition(obj, -2)[-2] if n - len(sel) > 1 else -np.inf
                if obj[best] - second < 1e-4 * max(1.0, abs(obj[best])):
                    break                                   # tie-ambiguous in float32: stop comparing
                ctx.check_prop("greedy-argmax-first-maximiser", S[step] == best, dd,
                               {"step": step, "picked": S[step], "dense_argmax": best})
                if S[step] != best:
                    break
                sel.append(best)
        if meth == "greedy":
            KS = K[np.ix_(S, S)] + 1e-6 * np.eye(m)
            if np.linalg.cond(KS) < 1e4:
                wr = np.maximum(np.linalg.solve(KS, mu[S]), 0.0)
                if wr.sum() > 1e-6:
                    wr = wr / wr.sum()
                    ctx.check_prop("weights-equal-documented-weights", bool(np.allclose(w, wr, rtol=5e-3, atol=5e-4)), dd,
                                   {"w": w.tolist(), "documented": wr.tolist(), "selection": S})
        # local explanation: k nearest prototypes under the kernel-induced distance
        P = x[S]
        dq = np.sqrt(np.maximum(np.diag(kmat(q, q))[:, None] - 2 * kmat(q, P) + np.diag(kmat(P, P))[None, :], 0.0))
        want = np.sort(dq, axis=1)[:, :k]
        got = np.asarray(out["distances"].numpy(), dtype=np.float64)
        ctx.check_prop("local-k-nearest-prototypes", got.shape == want.shape and bool(np.allclose(got, want, rtol=1e-3, atol=1e-3)), dd,
                       {"got": got[:2].tolist(), "kernel_induced_distances": want[:2].tolist()})
    def dense_obj(S, c):
        if meth == "mmd":
            return 2 * mu[c] - (K[c, c] + 2 * sum(K[s_, c] for s_ in S)) / (len(S) + 1)
        T = S + [c]
        KT = K[np.ix_(T, T)]
        w_ = np.maximum(np.linalg.solve(KT + 1e-6 * np.eye(len(T)), mu[T]), 0.0)
        return float(w_ @ mu[T] - 0.5 * w_ @ KT @ w_)

    if meth != "dash":      # ProtoDash later steps are not fixed by the property; selection compared for the two others
        same = True
        for f in flats[1:]:
            for step, (a_, b_) in enumerate(zip(flats[0], f)):
                if a_ != b_:
                    # different picks are acceptable only when the two candidates tie within float32 resolution
                    oa, ob = dense_obj(list(flats[0][:step]), a_), dense_obj(list(flats[0][:step]), b_)
                    if abs(oa - ob) > 2e-4 * max(1.0, abs(oa), abs(ob)):
                        same = False
                    else:
                        ctx.count("mixkernel_tie_ambiguous")
                    break
        ctx.check_prop("batching-independence-selection", same, d, {"selections": flats, "bss": d["bss"]})
    if all(f == flats[0] for f in flats):
        ctx.check_prop("batching-independence-weights", all(np.allclose(w_, ws[0], rtol=5e-3, atol=5e-4) for w_ in ws), d,
                       {"weights": [w_.tolist() for w_ in ws], "bss": d["bss"]})


def gen_cases(rng, thorough, scale):
    cases = []
    for i in range((30 if thorough else 6) * scale):
        n = int(rng.integers(5, 11))
        m = int(rng.integers(2, min(n, 6) + 1))
        cases.append({"family": "mixkernel", "meth": ["greedy", "mmd", "dash"][i % 3], "N": n, "d": int(rng.integers(1, 3)),
                      "m": m, "k": int(rng.integers(1, m + 1)), "nq": int(rng.integers(1, 4)),
                      "bss": [n, int(rng.integers(2, 4)), int(rng.integers(2, n))], "case_seed": int(rng.integers(1 << 31))})
    return cases
