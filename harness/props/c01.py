"""C01 - gradient attributions equal the analytic gradient statistics (+ channel reducer).

Implementation: xplique Saliency / GradientInput / SmoothGrad / SquareGrad / VarGrad.
Model: Lean `GS.saliencyImpl`, `GS.gradInputImpl`, `GS.gsImpl` (generated batch arithmetic) followed by
`harmonize`; Spec: Lean `GS.saliencySpec`, `GS.gradInputSpec`, `GS.gsSpec` + `reducePixels`.
The gradient is the analytic gradient of a score function known to both sides; the noisy points
of the SmoothGrad family are OBSERVED by wrapping `GradientStatistic._perturb_samples` in-process.
"""
import json
import os
from fractions import Fraction

import numpy as np

from common import enc, small_ints, VERIF
from props import c01_models as M

RULE = ("cases = (method in Saliency/GradientInput/SmoothGrad/SquareGrad/VarGrad, score kind in "
        "{polynomial through explicit operator, functional Keras polynomial (Dense/Conv2D/Multiply), functional "
        "Keras ReLU net; the Keras ones with operator=None}, data kind tabular / time series / image with C in 1..4 "
        "and H != W, N, real-valued targets, reducer in {min,max,mean,sum,None}, batch size incl. < nb_samples and "
        "None, nb_samples incl. non powers of two, noise in {0, 1/8, 1}) drawn from a seeded generator; the noisy "
        "points are observed by wrapping _perturb_samples and fed to the Lean model; each case compares the "
        "implementation with the Lean Impl model (same batch size; also the shapes of the _perturb_samples calls) and "
        "evaluates the property predicates against the Lean Spec; distinct = distinct descriptor hash; "
        "non-trivial = output not constant")

METHODS = ("saliency", "gradinput", "smooth", "square", "var")
REDUCERS = ("min", "max", "mean", "sum", None)


def _cls(method):
    from xplique.attributions import Saliency, GradientInput, SmoothGrad, SquareGrad, VarGrad
    return {"saliency": Saliency, "gradinput": GradientInput, "smooth": SmoothGrad, "square": SquareGrad,
            "var": VarGrad}[method]


def collect_points(ctx, d, x, log, nb, noise):
    """noisy copies per input, in drawing order, from the observed _perturb_samples calls.
    Returns (pts or None, call shapes)."""
    n = x.shape[0]
    flat = x.reshape(n, -1)
    index = {flat[i].tobytes(): i for i in range(n)}
    pts = [[] for _ in range(n)]
    shapes = []
    rows_ok, near_ok, struct_ok, noise_ok = True, True, True, True
    worst = 0.0
    for (xb, c, nz, out) in log:
        nbatch = xb.shape[0]
        shapes.append([int(nbatch), int(c)])
        xbf = xb.reshape(nbatch, -1)
        of = out.reshape(out.shape[0], -1)
        noise_ok = noise_ok and (Fraction(nz) == Fraction(float(np.float32(noise))) or nz == noise)
        if of.shape[0] != nbatch * c or of.shape[1] != xbf.shape[1]:
            struct_ok = False
            continue
        for r in range(nbatch):
            i = index.get(xbf[r].tobytes())
            if i is None:
                rows_ok = False
                continue
            for k in range(c):
                p = of[r * c + k]
                pts[i].append(p)
                dev = float(np.abs(p.astype(np.float64) - xbf[r].astype(np.float64)).max())
                worst = max(worst, dev)
                if dev > 8.0 * noise * (1 + 1e-6):
                    near_ok = False
    ctx.check_prop("noisy-copies-belong-to-inputs", rows_ok and struct_ok, d,
                   {"rows_found": rows_ok, "call_output_shape_ok": struct_ok})
    counts = [len(p) for p in pts]
    ctx.check_prop("exactly-nb-noisy-copies", all(c == nb for c in counts), d, {"counts": counts, "nb": nb})
    ctx.check_prop("noisy-copy-is-its-input-plus-noise", near_ok, d,
                   {"max_abs_deviation": worst, "noise": noise,
                    "note": "noise = 0: every copy must equal its input exactly; else |copy - input| <= 8 sigma"})
    ctx.check_corr("gs_noise_argument", [float(l[2]) for l in log], [Fraction(float(np.float32(noise)))] * len(log), d)
    if not (rows_ok and struct_ok and all(c == nb for c in counts)):
        return None, shapes
    return np.stack([np.stack(p) for p in pts]), shapes


def run_case(ctx, d):
    tf = __import__("tensorflow")
    from xplique.attributions.gradient_statistics.gradient_statistic import GradientStatistic
    rng = np.random.default_rng(d["case_seed"])
    kind, shape, n, nc = d["kind"], tuple(d["shape"]), d["N"], d["nc"]
    method, reducer, bs = d["method"], d["reducer"], d["bs"]
    nb, noise = d.get("nb"), d.get("noise", 0.0)
    dflat = int(np.prod(shape))
    sc = M.make_score(rng, d["score"], kind, shape, nc, cub=d.get("cub", 0))
    x = M.distinct_inputs(rng, n, shape)
    y = small_ints(rng, (n, nc), -2, 2)
    if d.get("y_den", 1) != 1:
        y = (y + rng.integers(0, d["y_den"], size=y.shape) / d["y_den"]).astype(np.float32)
    tf.random.set_seed(d["case_seed"])
    gs = method in ("smooth", "square", "var")
    kw = {"nb_samples": nb, "noise": noise} if gs else {}
    log = []

    def impl():
        expl = _cls(method)(sc.model, operator=sc.operator, batch_size=bs, reducer=reducer, **kw)
        with M.Observe(GradientStatistic, "_perturb_samples",
                       lambda a, k, out: log.append((np.array(a[0]), int(a[1]), float(a[2]), np.array(out)))):
            return expl(x, y)

    ctx.count("method", method)
    ctx.count("score", sc.label)
    ctx.count("kind", kind if kind != "img" else f"img-C{shape[2]}")
    ctx.count("reducer", str(reducer))
    req = {"op": "c01", "method": method, "score": sc.json, "lay": M.layout_json(kind, shape),
           "reducer": reducer, "bs": bs, "D": dflat, "xs": enc(x.reshape(n, -1)), "ys": enc(y)}

    # malformed stream: VarGrad needs two samples (the code asserts) - modelled as `none`
    if method == "var" and nb == 1:
        try:
            out = impl().numpy().reshape(-1)
        except AssertionError:
            out = [float("nan")]
        req.update({"nb": 1, "pts": enc(x.reshape(n, 1, -1))})
        r = ctx.driver.call(req)
        ctx.check_corr("vargrad_nb1_undefined", out[:1], [None] if r["impl"] is None else [0], d, scale=1.0)
        ctx.case(d, False)
        ctx.count("malformed", "vargrad-nb1")
        return

    ok, out = ctx.impl_call(d, impl)
    if not ok:
        ctx.case(d, False)
        return
    dtype = str(out.dtype.name) if hasattr(out.dtype, "name") else str(out.dtype)
    out = out.numpy()
    exp_shape = M.expected_shape(kind, shape, n, reducer)
    shape_ok = tuple(out.shape) == exp_shape
    ctx.check_prop("shape", shape_ok, d, {"got": list(out.shape), "want": list(exp_shape)})
    ctx.check_prop("dtype", dtype == "float32", d, {"dtype": dtype})
    if gs:
        pts, shapes = collect_points(ctx, d, x, log, nb, noise)
        if pts is None:
            ctx.case(d, False)
            return
        req.update({"nb": nb, "pts": enc(pts)})
        ctx.count("bs_vs_nb", "none" if bs is None else ("lt" if bs < nb else ("eq" if bs == nb else "gt")))
        ctx.count("nb_pow2", "pow2" if nb & (nb - 1) == 0 else "non-pow2")
        ctx.count("noise", str(noise))
    r = ctx.driver.call(req)
    if gs:
        ctx.check_corr("gs_perturb_call_shapes", shapes, r["calls"], d)
    # ReLU kink guard (inexact lane only): float32 cannot decide the gate closer than its rounding
    if r["kink"] is not None and gs and noise > 0 and r["kink"] < Fraction(1, 10000):
        ctx.count("skipped", "relu-kink-within-float-rounding")
        ctx.case(d, False)
        return
    nontrivial = len(set(np.round(out.reshape(-1), 6).tolist())) > 1
    ctx.case(d, nontrivial)
    if not shape_ok:
        return
    # tolerance lane: absolute forward-error budget proportional to the magnitude budget `bud`
    # (sum of |terms| of a gradient coordinate, computed by Lean); exact equality is tried first
    bud = max(1.0, float(r["bud"])) * (shape[2] if kind == "img" else 1)     # `sum` reducer adds C terms
    tol = {}
    if gs:
        gmax = max(1.0, float(r["mag"]) ** 0.5)
        if method == "smooth":
            tol = {"rtol": 5e-5, "atol": 2e-5 * bud, "scale": 1.0}
        else:
            tol = {"rtol": 1e-4, "atol": 8e-5 * bud * gmax, "scale": 1.0}
    ctx.check_corr("c01_impl_model", out.reshape(n, -1), r["impl"], d, **tol)
    clause = {"saliency": "saliency-is-abs-gradient", "gradinput": "gradinput-is-x-times-gradient",
              "smooth": "smoothgrad-is-mean", "square": "squaregrad-is-mean-of-squares",
              "var": "vargrad-is-unbiased-variance"}[method]
    ctx.check_pred(clause, out.reshape(n, -1), r["spec"], d, **tol)


def gen_cases(ctx):
    rng = ctx.rng
    thorough = ctx.tier == "thorough"
    total = (1200 if thorough else 200) * ctx.budget_scale
    dmax = 7 if thorough else 5
    cases = []
    for idx in range(total):
        method = METHODS[idx % 5] if idx < 100 else METHODS[int(rng.integers(5))]
        u = rng.random()
        kind = "tab" if u < 0.2 else ("ts" if u < 0.4 else "img")
        if kind == "tab":
            shape = [int(rng.integers(1, 2 * dmax))]
        elif kind == "ts":
            shape = [int(rng.integers(1, dmax + 1)), int(rng.integers(1, dmax + 1))]
        else:
            h, w = int(rng.integers(1, dmax + 1)), int(rng.integers(1, dmax + 1))
            if h == w:
                w = w % dmax + 1
            shape = [h, w, int(rng.integers(1, 5))]
        dflat = int(np.prod(shape))
        v = rng.random()
        score = "poly-op" if v < 0.55 else ("keras-poly" if (v < 0.8 and dflat <= 30) else "keras-relu")
        n = int(rng.integers(1, 8 if thorough else 6))
        reducer = REDUCERS[int(rng.integers(5))] if kind == "img" else REDUCERS[int(rng.integers(5))]
        d = {"method": method, "score": score, "kind": kind, "shape": shape, "N": n,
             "nc": int(rng.integers(1, 4)), "reducer": reducer, "cub": int(rng.integers(0, 2)),
             "y_den": int(rng.choice([1, 1, 2, 4])), "case_seed": int(rng.integers(1 << 31))}
        if method in ("smooth", "square", "var"):
            nb = int(rng.choice([1, 2, 3, 4, 5, 6, 7, 8] + ([11, 16] if thorough else [])))
            if method == "var" and nb == 1 and rng.random() < 0.5:
                nb = 3
            d["nb"] = nb
            d["noise"] = float(rng.choice([0.0, 0.125, 1.0]))
            opts = [None, 1, 2, 3, max(1, nb - 1), nb, nb + 1, 2 * nb, 2 * nb + 1, n * nb, n * nb + 1, 64]
            d["bs"] = opts[int(rng.integers(len(opts)))]
        else:
            opts = [None, 1, 2, 3, n, n + 1, 64]
            d["bs"] = opts[int(rng.integers(len(opts)))]
        cases.append(d)
    return cases


def corpus_cases():
    p = os.path.join(VERIF, "corpus", "C01")
    out = []
    if os.path.isdir(p):
        for fn in sorted(os.listdir(p)):
            if fn.endswith(".json"):
                out.append(json.load(open(os.path.join(p, fn))))
    return out


def run(ctx):
    for d in corpus_cases() + gen_cases(ctx):
        run_case(ctx, d)


def extra(ctx):
    return {"property_assumptions": [
        "PerSample op g: the gradient TensorFlow returns for a sample does not depend on the rest of its batch",
        "TensorFlow autodiff delivers the analytic gradient g (cross-checked exactly on integer polynomials and ReLU nets)",
        "the noisy copies are whatever _perturb_samples returned (observed, not modelled); tf.data batching keeps order",
        "float32 rounding idealised; tolerance lane bounded by a magnitude budget computed by the Lean driver"]}


def replay(ctx, r):
    case = r.get("case") or ((r.get("first_disagreement") or [None])[0])
    if case is None:        # broken proof obligation without a failing input: the Lean stage re-checks it
        for d in corpus_cases():
            run_case(ctx, d)
    else:
        run_case(ctx, case)
