"""C15 - MuFidelity and AverageStability measure what they document, within their bounds.

Implementation: xplique.metrics.MuFidelity / AverageStability on recording NumPy polynomial models;
`MuFidelity._perturb_samples` and the module-level `spearmanr` are wrapped in-process (the originals
are called, their arguments / results logged).  Model: Lean `MuFid.pairsImpl` (generated batch / chunk
arithmetic, observed masks), `MuFid.stabImpl`; Spec: `MuFid.pairsOne`, `rankTriple`.
"""
import json
import math
import os
from fractions import Fraction

import numpy as np

from common import PolyModel, compare, enc, fr, small_ints, VERIF

RULE = ("MuFidelity cases = (data kind tab/ts/img, shape, N, grid_size None|2|3, subset_percent 0.1|0.4|0.9, nb_samples "
        "2..24, baseline constant|callable, batch size incl. < nb_samples and None, phi layout, variant "
        "poly|additive|constant) from a seeded generator; every case runs xplique.MuFidelity with the mask generator and "
        "spearmanr wrapped, sends the observed masks to the Lean model and compares chunk sizes, model queries, "
        "(pred, attr) pairs, rank-covariance triple -> rho, final score; predicates: exactly nb_samples perturbations "
        "per sample, pairs = reference pairs, score in [-1,1], positive rescaling invariance (same draws replayed), "
        "+1 / -1 on exact attributions of additive scores and their negation, 0 on constant scores. "
        "AverageStability cases = (kind, shape, N, nb_samples, radius, distance l1|l2|callable, batch size): explainer = "
        "gradient of a polynomial score (recorded); neighbours, distances and score vs Lean; predicates: nb_samples "
        "neighbours per sample within [0, radius), score >= 0, = 0 for an input-independent explainer. "
        "distinct = descriptor hash; non-trivial = preds vary for some sample / distances not all equal")

BASELINES = {
    "half": lambda z: z * 0.0 + 0.5,
    "roll": lambda z: tf_roll(z),
    "chanmax": lambda z: tf_chanmax(z),
}


def tf_roll(z):
    import tensorflow as tf
    return tf.roll(z, 1, axis=-1) * 0.5


def tf_chanmax(z):
    # exact in float32 (a mean would not be, and ranks are sensitive to one-ulp differences)
    import tensorflow as tf
    return tf.reduce_max(z, axis=-1, keepdims=True) * tf.ones_like(z)


def np_baseline(b, x):
    """baseline values per sample (same layout as x); callables are per-sample along the last axis"""
    if b == "half":
        return np.full_like(x, 0.5)
    if b == "roll":
        return (np.roll(x, 1, axis=-1) * np.float32(0.5)).astype(np.float32)
    if b == "chanmax":
        return (np.max(x, axis=-1, keepdims=True) * np.ones_like(x)).astype(np.float32)
    return np.full_like(x, np.float32(b))


def cells_chan(kind, shape):
    if kind == "img":
        return int(shape[0] * shape[1]), int(shape[2])
    return int(np.prod(shape)), 1


def poly_grad(model, xf, y):
    """gradient of sum_c y_c out_c at flat inputs xf (n, D), float64"""
    n, dd = xf.shape
    g = np.zeros((n, dd), dtype=np.float64)
    for c in range(model.nc):
        gc = np.tile(model.lin[c].astype(np.float64), (n, 1))
        for (i, j, q) in model.quad[c]:
            gc[:, i] += q * xf[:, j]
            gc[:, j] += q * xf[:, i]
        for (i, j, k, q) in model.cub[c]:
            gc[:, i] += q * xf[:, j] * xf[:, k]
            gc[:, j] += q * xf[:, i] * xf[:, k]
            gc[:, k] += q * xf[:, i] * xf[:, j]
        g += y[:, c:c + 1].astype(np.float64) * gc
    return g


# ----------------------------------------------------------------------------------------------
# MuFidelity
# ----------------------------------------------------------------------------------------------
def build_muf(d):
    rng = np.random.default_rng(d["case_seed"])
    shape = tuple(d["shape"])
    n = d["N"]
    ncell, chan = cells_chan(d["kind"], shape)
    nflat = ncell * chan
    nc = 2
    var = d["variant"]
    if var == "poly":
        model = PolyModel(rng, nflat, nc=nc, quad=3, cub=1 if nflat > 2 else 0)
    else:
        model = PolyModel(rng, nflat, nc=nc, quad=0, cub=0)
        if var == "additive":
            model.lin = rng.integers(1, 4, size=(nc, nflat)) * rng.choice([-1, 1], size=(nc, nflat))
            model.quad = [[(int(i), int(i), int(rng.integers(1, 3))) for i in rng.choice(nflat, size=min(nflat, 2), replace=False)]
                          for _ in range(nc)]
        else:
            model.lin = np.zeros((nc, nflat), dtype=np.int64)
            model.const = rng.integers(1, 4, size=nc)
    x = small_ints(rng, (n,) + shape, -2, 2)
    y = small_ints(rng, (n, nc), -2, 2)
    if var != "poly":
        y = np.abs(y) + 1.0
    y = y.astype(np.float32)
    base = np_baseline(d["baseline"], x)
    lay = d["playout"]
    if var == "additive":
        xf = x.reshape(n, nflat).astype(np.float64)
        bf = base.reshape(n, nflat).astype(np.float64)
        phi_flat = np.zeros((n, nflat))
        for c in range(nc):
            gx = xf * model.lin[c]
            gb = bf * model.lin[c]
            for (i, j, q) in model.quad[c]:
                gx[:, i] += q * xf[:, i] ** 2
                gb[:, i] += q * bf[:, i] ** 2
            phi_flat += y[:, c:c + 1] * (gx - gb)
        phi_flat = phi_flat.astype(np.float32)
    else:
        phi_flat = small_ints(rng, (n, nflat), -3, 3)
    if d["kind"] == "img" and lay != "same":
        phi_cells = phi_flat.reshape(n, ncell, chan).sum(-1).astype(np.float32)
        phi = phi_cells.reshape((n,) + shape[:2] + ((1,) if lay == "one" else ()))
        cp = 1
        phi_model = phi_cells
    else:
        phi = phi_flat.reshape((n,) + shape)
        cp = chan
        phi_model = phi_flat
    return dict(rng=rng, shape=shape, n=n, ncell=ncell, chan=chan, model=model, x=x, y=y, base=base,
                phi=phi, cp=cp, phi_model=phi_model, nc=nc)


class Tap:
    """wraps metric._perturb_samples and fidelity.spearmanr; optional replay of recorded draws"""

    def __init__(self, metric, replay=None):
        import xplique.metrics.fidelity as fid
        self.fid = fid
        self.metric = metric
        self.draws = []        # (n_in_batch, nbp, masks ndarray (n, nbp, cells...), degraded)
        self.sp = []           # (pred, attr, rho)
        self.replay = list(replay) if replay is not None else None
        self.orig_ps = metric._perturb_samples
        # the rank correlation is observed through the module-level scipy `spearmanr` when the implementation uses it; an
        # implementation that computes it otherwise is judged on its final score against the reference pairs only
        self.orig_sp = getattr(fid, "spearmanr", None)
        self.has_sp = self.orig_sp is not None

    def __enter__(self):
        def ps(inp, nbp):
            if self.replay is not None:
                n_, nbp_, masks, deg = self.replay.pop(0)
                assert n_ == int(inp.shape[0]) and nbp_ == int(nbp)
                import tensorflow as tf
                out = (tf.constant(deg), tf.constant(masks))
            else:
                out = self.orig_ps(inp, nbp)
            self.draws.append((int(inp.shape[0]), int(nbp), np.asarray(out[1]), np.asarray(out[0])))
            return out

        def sp(a, b, *args, **kw):
            r = self.orig_sp(a, b, *args, **kw)
            self.sp.append((np.asarray(a, dtype=np.float64).copy(), np.asarray(b, dtype=np.float64).copy(), float(r[0])))
            return r
        self.metric._perturb_samples = ps
        if self.has_sp:
            self.fid.spearmanr = sp
        return self

    def __exit__(self, *exc):
        if self.has_sp:
            self.fid.spearmanr = self.orig_sp
        del self.metric._perturb_samples
        return False


def run_muf(ctx, d):
    import warnings
    B = build_muf(d)
    n, model, x, y, phi = B["n"], B["model"], B["x"], B["y"], B["phi"]
    nb = d["nb"]
    bmode = BASELINES[d["baseline"]] if isinstance(d["baseline"], str) else float(d["baseline"])

    def impl():
        from xplique.metrics import MuFidelity
        model.calls.clear()
        model.record = True
        model.queries = []
        m = MuFidelity(model, x, y, batch_size=d["bs"], grid_size=d["grid"], subset_percent=d["sp"],
                       baseline_mode=bmode, nb_samples=nb)
        with warnings.catch_warnings():
            warnings.simplefilter("ignore")
            with Tap(m) as tap:
                score = m(phi)
        model.record = False
        return m, tap, score, list(model.queries), list(model.calls)
    ok, out = ctx.impl_call(d, impl)
    if not ok:
        ctx.case(d, False)
        return
    m, tap, score, queries, calls = out
    if score != score or abs(score) == float("inf"):
        # NaN correlations must be reported as 0 (constant scores)
        ctx.check_prop("constant-score-zero" if d["variant"] == "constant" else "score-is-finite", False, d,
                       {"score": str(score)})
        ctx.case(d, False)
        return

    # ---- organise the observed draws per input batch
    groups, cur, tot = [], [], 0
    shared = True
    for (n_in, nbp, masks, _deg) in tap.draws:
        mk = masks.reshape(n_in, nbp, -1)
        if not np.all(mk == mk[:1]):
            shared = False
        binary = bool(np.all((mk == 0) | (mk == 1)))
        cur.append((n_in, nbp, mk[0]))
        tot += nbp
        if tot >= nb:
            groups.append(cur)
            cur, tot = [], 0
    if cur:
        groups.append(cur)
    draws_json = [[enc(mk) for (_, _, mk) in g] for g in groups]
    r = ctx.driver.call({"op": "mufid", "c": B["chan"], "cp": B["cp"], "polys": model.json(), "bs": d["bs"],
                         "nb": nb, "xs": enc(x.reshape(n, -1)), "bases": enc(B["base"].reshape(n, -1)),
                         "ys": enc(y), "phis": enc(B["phi_model"].reshape(n, -1)), "draws": draws_json})
    ibs, pbs = int(r["ibs"]), int(r["pbs"])
    bs_eff = int(r["bs_eff"])
    ctx.count("muf_kind", d["kind"])
    ctx.count("muf_variant", d["variant"])
    ctx.count("muf_bs_vs_nb", "none" if d["bs"] is None else ("lt" if d["bs"] < nb else "ge"))
    ctx.count("muf_grid", str(d["grid"]))
    ctx.count("muf_baseline", d["baseline"] if isinstance(d["baseline"], str) else "const")
    ctx.count("muf_chunks_per_batch", len(r["chunks"]))

    # ---- generated arithmetic vs the object / the observed loop
    ctx.check_corr("muf_batch_arith", [m.batch_size, m.perturbation_batch_size, m.inputs_batch_size],
                   [Fraction(bs_eff), Fraction(pbs), Fraction(ibs)], d)
    obs_chunks = [[nbp for (_, nbp, _) in g] for g in groups]
    ctx.check_corr("muf_chunk_sizes", obs_chunks, [r["chunks"]] * len(groups) if len(groups) == int(r["nbatches"]) else [], d)
    obs_nin = [g[0][0] for g in groups]
    want_nin = [min(ibs, n - i) for i in range(0, n, ibs)]
    ctx.check_corr("muf_input_batches", obs_nin, [Fraction(v) for v in want_nin], d)
    ctx.check_corr("muf_masks_shared_in_batch", [int(shared)], [Fraction(1)], d)
    # ---- exactly nb_samples perturbations per sample, whatever the batch size
    per_sample = [len(p) for (p, _, _) in tap.sp]
    sp_seen = (len(tap.sp) == n and all(v == nb for v in per_sample)) if tap.has_sp else True
    ctx.check_prop("nb-perturbations-per-sample", sp_seen
                   and all(sum(c) == nb for c in obs_chunks), d, {"per_sample": per_sample, "chunks": obs_chunks, "nb": nb})
    if d["bs"] is not None and calls:
        ctx.check_prop("calls_le_batch_size", max(calls) <= d["bs"], d, {"max_call": max(calls), "bs": d["bs"]})
    nq = sum(q.shape[0] for q in queries)
    ctx.check_prop("nb-model-queries", nq == n + n * nb, d, {"queries": nq, "want": n + n * nb})

    # ---- grid structure of the masks (time series / images)
    if d["kind"] != "tab" and groups:
        if d["kind"] == "ts":
            gh, gw, h, w = (d["grid"] or B["shape"][0]), B["shape"][1], B["shape"][0], B["shape"][1]
        else:
            g_ = d["grid"] or B["shape"][0]
            gh, gw, h, w = g_, g_, B["shape"][0], B["shape"][1]
        allm = [mk_row for g in groups for (_, _, mk) in g for mk_row in mk][:40]
        gm = ctx.driver.call({"op": "gridmask", "gh": gh, "gw": gw, "h": h, "w": w, "masks": enc(np.array(allm))})
        ctx.check_corr("muf_grid_masks", [int(bool(v)) for v in gm], [Fraction(1)] * len(gm), d)

    # ---- data flow: queries, (pred, attr) pairs
    if nq == len(r["queries"]):
        ctx.check_corr("muf_model_queries", np.concatenate(queries, axis=0), r["queries"], d)
    if tap.has_sp:
        impl_pairs = [[[float(a), float(b)] for a, b in zip(p, t)] for (p, t, _) in tap.sp]
        shapes_ok = len(impl_pairs) == len(r["impl"]) and all(len(a) == len(b) for a, b in zip(impl_pairs, r["impl"]))
        if shapes_ok:
            ctx.check_corr("muf_pairs_impl_model", impl_pairs, r["impl"], d, rtol=1e-5, atol=1e-5)
        ctx.check_pred("pairs-reference", impl_pairs, r["spec"], d, rtol=1e-5, atol=1e-5)
        pairs_exact = compare(impl_pairs, r["spec"])[0] == "exact"
    else:
        # pairs not observable: the reference pairs determine the score when they are exactly representable in float32
        # (small-integer data: the implementation's float32 pairs are then the same numbers, ties included)
        from common import flat
        pairs_exact = all(Fraction(float(np.float32(float(v)))) == v for v in flat(r["spec"]))
        ctx.count("muf_spearmanr_not_observable")
    ctx.count("muf_pairs_lane", "exact" if pairs_exact else "tol")

    # ---- Spearman: Lean's rank-covariance triple on the OBSERVED sequences vs scipy, and the final mean
    rhos = []
    nontrivial = False
    for (p, t, rho_scipy) in tap.sp:
        rr = ctx.driver.call({"op": "spearman", "a": enc(p), "b": enc(t)})
        cov, vx, vy = rr["triple"]
        if rr["rho"] is None:
            rho_l = float("nan")
        else:
            rho_l = float(rr["rho"][0]) * math.sqrt(float(rr["rho"][1]))
            nontrivial = True
        # Cauchy-Schwarz (theorem spearman_bounds) re-checked on the data
        assert cov * cov <= vx * vy
        same = (rho_l != rho_l and rho_scipy != rho_scipy) or abs(rho_l - rho_scipy) <= 1e-9
        ctx.check_corr("scipy_spearmanr_is_rank_correlation", [0.0 if same else 1.0], [Fraction(0)], d)
        rhos.append(0.0 if rho_l != rho_l else rho_l)
    if not tap.has_sp:
        nontrivial = any(q is not None for q in r["rho"])
    ctx.case(d, nontrivial)
    want = float(np.mean(rhos)) if rhos else float("nan")
    if tap.has_sp:
        ctx.check_corr("muf_score_impl_model", [score], [Fraction(want)], d, rtol=1e-6, atol=1e-7)
    # the score of the reference pairs (Lean Spec side)
    spec_rhos = [0.0 if q is None else float(q[0]) * math.sqrt(float(q[1])) for q in r["rho"]]
    if pairs_exact:     # ranks are not continuous: only exact pairs determine the reference score
        ctx.check_pred("score-reference", [score], [Fraction(float(np.mean(spec_rhos)))], d, rtol=1e-6, atol=1e-6)
    ctx.check_prop("score-in-bounds", -1.0 - 1e-9 <= score <= 1.0 + 1e-9, d, {"score": score})

    # ---- relations (same draws replayed through the wrapped generator)
    def again(phi2):
        def f():
            with warnings.catch_warnings():
                warnings.simplefilter("ignore")
                with Tap(m, replay=tap.draws):
                    return m(phi2)
        return ctx.impl_call(d, f)
    if "rescale" in d["extra"]:
        for cst in (3.0, 0.5, 2.0 ** -30, 2.0 ** 20):
            ok2, s2 = again((phi * np.float32(cst)).astype(np.float32))
            if ok2:
                ctx.check_pred("positive-rescaling", [s2], [Fraction(score)], d, rtol=1e-9, atol=1e-9)
    if d["variant"] == "additive":
        frac = float(np.mean([0.0 if q is None else 1.0 for q in r["rho"]]))
        ctx.check_pred("additive-plus-one", [score], [Fraction(frac)], d, rtol=1e-6, atol=1e-6)
        ok2, s2 = again(-phi)
        if ok2:
            ctx.check_pred("additive-negation-minus-one", [s2], [Fraction(-frac)], d, rtol=1e-6, atol=1e-6)
        ctx.count("muf_additive_varying_fraction", round(frac, 2))
    if d["variant"] == "constant":
        ctx.check_prop("constant-score-zero", score == 0.0, d, {"score": score})


# ----------------------------------------------------------------------------------------------
# AverageStability
# ----------------------------------------------------------------------------------------------
def run_stab(ctx, d):
    import tensorflow as tf
    rng = np.random.default_rng(d["case_seed"])
    shape = tuple(d["shape"])
    n, nb = d["N"], d["nb"]
    nflat = int(np.prod(shape))
    nc = 2
    model = PolyModel(rng, nflat, nc=nc, quad=2, cub=0)
    x = small_ints(rng, (n,) + shape, -2, 2)
    y = small_ints(rng, (n, nc), -2, 2)
    calls = []

    def explainer(inp, lab):
        a = np.asarray(inp, dtype=np.float32)
        l_ = np.asarray(lab, dtype=np.float32)
        calls.append((a.copy(), l_.copy()))
        if d["explainer"] == "const":
            return np.ones_like(a) * np.float32(0.75)
        return poly_grad(model, a.reshape(a.shape[0], -1).astype(np.float64), l_).reshape(a.shape).astype(np.float32)
    dist = d["dist"]
    dist_arg = (lambda a, b: tf.reduce_max(tf.abs(a - b))) if dist == "linf" else dist

    def impl():
        from xplique.metrics import AverageStability
        tf.random.set_seed(d["case_seed"] % (1 << 30))
        m = AverageStability(model, x, y, batch_size=d["bs"], radius=d["radius"], distance=dist_arg, nb_samples=nb)
        if d.get("prior"):
            # the metric object was already used with ANOTHER explainer (added after a seeded memoisation was missed)
            m(lambda inp, lab: np.asarray(inp, dtype=np.float32) * np.float32(0.5))
        base = None if d["base_given"] is False else explainer(x, y)
        calls.clear()
        return m, (m.evaluate(explainer, base) if base is not None else m(explainer))
    ok, out = ctx.impl_call(d, impl)
    if not ok:
        ctx.case(d, False)
        return
    m, score = out
    noise = np.asarray(m.noisy_masks).reshape(nb, -1) if np.asarray(m.noisy_masks).shape[0] == nb else \
        np.asarray(m.noisy_masks).reshape(np.asarray(m.noisy_masks).shape[0], -1)
    ctx.count("stab_dist", dist)
    ctx.count("stab_kind", d["kind"])
    ctx.count("stab_explainer", d["explainer"])
    per = calls[1:] if d["base_given"] is False else calls
    # exactly nb_samples neighbours per sample, each within [0, radius) of it, labels repeated
    # (the explainer may be called on the neighbours of a sample in one call or in several smaller ones: the
    #  property fixes their NUMBER per sample, not how they are grouped - calls are regrouped sample by sample)
    sizes = [int(a.shape[0]) for a, _ in per]
    ok_nb = sum(sizes) == n * nb and len(per) >= n
    if ok_nb and any(sz != nb for sz in sizes):
        rows = np.concatenate([a for a, _ in per], 0)
        labs = np.concatenate([l_ for _, l_ in per], 0)
        # a call must not straddle two samples
        bounds = np.cumsum(sizes)
        ok_nb = all(((k_ + 1) * nb) in set(bounds.tolist()) for k_ in range(n))
        if ok_nb:
            per = [(rows[k_ * nb:(k_ + 1) * nb], labs[k_ * nb:(k_ + 1) * nb]) for k_ in range(n)]
    ctx.check_prop("nb-neighbours-per-sample", ok_nb, d, {"calls": sizes, "nb": nb, "N": n})
    if not ok_nb:
        ctx.case(d, False)
        return
    eps = 1e-6
    within = all(np.all(a - x[i][None] >= -eps) and np.all(a - x[i][None] <= d["radius"] + eps) for i, (a, _) in enumerate(per))
    ctx.check_prop("neighbours-within-radius", within, d)
    ctx.check_prop("labels-follow-sample", all(np.all(l_ == y[i][None]) for i, (_, l_) in enumerate(per)), d)
    ctx.check_prop("score-nonnegative", score >= 0.0, d, {"score": score})
    if d["explainer"] == "const":
        ctx.check_prop("input-independent-explainer-zero", score == 0.0, d, {"score": score})
        ctx.case(d, True)
        return
    phis = poly_grad(model, x.reshape(n, -1).astype(np.float64), y).astype(np.float32)
    r = ctx.driver.call({"op": "stab", "polys": model.json(), "xs": enc(x.reshape(n, -1)), "ys": enc(y),
                         "noise": enc(noise), "phis": enc(phis), "dist": "l2sq" if dist == "l2" else dist})
    ctx.check_corr("stab_base_explanations", phis, r["base_expl"], d)
    ctx.check_corr("stab_neighbours", [a.reshape(nb, -1) for a, _ in per], r["neighbors"], d, rtol=1e-6, atol=1e-6)
    if dist == "l2":
        want = float(np.mean([np.mean([math.sqrt(float(v)) for v in row]) for row in r["dists"]]))
    else:
        want = float(r["score"])
    ctx.check_corr("stab_score_impl_model", [score], [Fraction(want)], d, rtol=2e-5, atol=2e-5)
    ctx.check_pred("score-is-mean-distance", [score], [Fraction(want)], d, rtol=2e-5, atol=2e-5)
    ctx.case(d, len({round(float(v), 9) for row in r["dists"] for v in row}) > 1)


# ----------------------------------------------------------------------------------------------
def gen_cases(ctx):
    rng = ctx.rng
    thorough = ctx.tier == "thorough"
    nm = (1200 if thorough else 100) * ctx.budget_scale
    ns = (400 if thorough else 30) * ctx.budget_scale
    dmax = 6 if thorough else 4
    cases = []
    for ci in range(nm):
        kind = ["tab", "ts", "img"][ci % 3] if ci < 9 else ["tab", "ts", "img"][int(rng.integers(3))]
        if kind == "tab":
            shape = (int(rng.integers(2, 2 * dmax + 1)),)
            grid = [None, 2, 3][int(rng.integers(3))]
        elif kind == "ts":
            shape = (int(rng.integers(2, dmax + 2)), int(rng.integers(1, dmax + 1)))
            grid = [None, 2, 3][int(rng.integers(3))]
        else:
            shape = (int(rng.integers(2, dmax + 2)), int(rng.integers(2, dmax + 2)), int(rng.integers(1, 4)))
            grid = [None, 2, 3][int(rng.integers(3))]
        if grid is not None and kind != "tab":
            lim = shape[0] if kind == "ts" else min(shape[0], shape[1])
            if grid > lim:
                grid = None
        variant = ["poly", "poly", "additive", "additive", "constant"][ci % 5] if ci < 10 else \
            ["poly", "additive", "constant"][int(rng.choice(3, p=[0.55, 0.33, 0.12]))]
        bases = [0.0, 0.5, -1.0, "half", "roll", "chanmax"]
        nb = int(rng.integers(2, 25)) if rng.random() < 0.7 else [2, 3, 8, 16, 24][int(rng.integers(5))]
        d = {"metric": "mufidelity", "kind": kind, "shape": list(shape), "N": int(rng.integers(1, 5)), "grid": grid,
             "sp": [0.1, 0.4, 0.9][int(rng.integers(3))], "nb": nb,
             "baseline": bases[int(rng.integers(len(bases)))],
             "bs": [None, 1, 2, 3, 5, 7, 64][int(rng.integers(7))],
             "playout": ["same", "nochan", "one"][int(rng.integers(3))] if kind == "img" else "same",
             "variant": variant, "extra": ["rescale"] if rng.random() < 0.35 else [],
             "case_seed": int(rng.integers(1 << 31))}
        cases.append(d)
    for ci in range(ns):
        kind = ["tab", "ts", "img"][ci % 3]
        shape = {"tab": (int(rng.integers(2, 2 * dmax)),), "ts": (int(rng.integers(1, dmax + 1)), int(rng.integers(2, dmax + 1))),
                 "img": (int(rng.integers(1, dmax + 1)), int(rng.integers(2, dmax + 1)), int(rng.integers(1, 4)))}[kind]
        d = {"metric": "stability", "kind": kind, "shape": list(shape), "N": int(rng.integers(1, 5)),
             "nb": int(rng.integers(1, 13)), "radius": [0.1, 0.5, 1.0, 0.25][int(rng.integers(4))],
             "dist": ["l1", "l2", "linf"][ci % 3 if ci < 6 else int(rng.integers(3))],
             "bs": [None, 1, 2, 64][int(rng.integers(4))],
             "explainer": "const" if rng.random() < 0.25 else "grad", "base_given": bool(rng.random() < 0.5),
             "prior": bool(rng.random() < 0.4),
             "case_seed": int(rng.integers(1 << 31))}
        cases.append(d)
    return cases


def run_case(ctx, d):
    if d.get("metric") == "stability":
        run_stab(ctx, d)
    else:
        run_muf(ctx, d)


def corpus_cases():
    p = os.path.join(VERIF, "corpus", "C15")
    out = []
    if os.path.isdir(p):
        for fn in sorted(os.listdir(p)):
            if fn.endswith(".json"):
                out.append(json.load(open(os.path.join(p, fn))))
    return out


def run(ctx):
    for d in corpus_cases() + gen_cases(ctx):
        run_case(ctx, d)


def replay(ctx, r):
    run_case(ctx, r["case"] if "case" in r else r["first_disagreement"][0])
