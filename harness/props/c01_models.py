"""Shared pieces of the C01 / C04 checks: score functions known to both sides (with their
analytic gradient on the Lean side), data generators, in-process observers.

Score kinds
  poly-op     PolyModel.tf_outputs (plain python function) + EXPLICIT operator
  keras-poly  functional Keras model (Dense / Conv2D branches, Multiply, Add) with integer weights;
              degree-2 polynomial whose coefficients are recovered exactly by probing; operator=None
  keras-relu  functional Keras model Flatten/Conv2D -> ReLU -> Dense with integer weights; operator=None
"""
import numpy as np

from common import PolyModel, InfraError, enc, small_ints


def explicit_operator():
    import tensorflow as tf
    return lambda f, x, y: tf.reduce_sum(f(x) * y, axis=-1)


def layout_json(kind, shape):
    if kind == "img":
        return {"kind": "img", "c": int(shape[2])}
    return {"kind": kind}


def expected_shape(kind, shape, n, reducer):
    if kind == "img":
        c = shape[2]
        return (n, shape[0], shape[1], c if (reducer is None or c == 1) else 1)
    return (n,) + tuple(shape)


def distinct_inputs(rng, n, shape, lo=-3, hi=3, den=1):
    """small-integer (or dyadic) inputs with pairwise distinct rows"""
    x = (rng.integers(lo * den, hi * den + 1, size=(n,) + tuple(shape)) / den).astype(np.float32)
    flat = x.reshape(n, -1)
    vals = rng.permutation(np.arange(lo, hi + 1))
    if n > len(vals):
        raise InfraError("too many inputs for distinct rows")
    flat[:, 0] = vals[:n]
    return flat.reshape((n,) + tuple(shape)).astype(np.float32)


class ScoreSpec:
    """model + operator to hand to an explainer, and the JSON the Lean driver needs"""

    def __init__(self, model, operator, json, label, degree):
        self.model = model
        self.operator = operator
        self.json = json
        self.label = label
        self.degree = degree      # 1, 2, 3 polynomial degree; 0 = not a polynomial

    def score(self, x, y):
        """explained score evaluated by TensorFlow in float32 (numpy in / out)"""
        import tensorflow as tf
        out = self.model(tf.constant(x, tf.float32))
        return tf.reduce_sum(out * tf.constant(y, tf.float32), axis=-1).numpy()


def poly_op_score(rng, shape, nc, quad=3, cub=0, coef=3):
    nflat = int(np.prod(shape))
    pm = PolyModel(rng, nflat, nc=nc, quad=quad, cub=cub if nflat > 1 else 0, coef=coef)
    deg = 3 if (cub and nflat > 1) else (2 if quad else 1)
    return ScoreSpec(pm.tf_outputs, explicit_operator(), {"kind": "poly", "polys": pm.json()}, "poly-op", deg)


def _int_init(rng, lo=-2, hi=2):
    import tensorflow as tf

    def init(shape, dtype=None):
        return tf.constant(rng.integers(lo, hi + 1, size=tuple(shape)).astype(np.float32))
    return init


def _probe_poly(model, shape, nc):
    """exact coefficients of a polynomial of degree <= 2 computed by a Keras model, by probing"""
    import tensorflow as tf
    d = int(np.prod(shape))
    eye = np.eye(d, dtype=np.float32)
    pts = [np.zeros((1, d), np.float32), eye, -eye]
    pairs = [(i, j) for i in range(d) for j in range(i + 1, d)]
    if pairs:
        pts.append(np.stack([eye[i] + eye[j] for i, j in pairs]))
    allp = np.concatenate(pts, 0).reshape((-1,) + tuple(shape))
    out = model(tf.constant(allp)).numpy().astype(np.float64)
    p0, pe, pm_, pp = out[0], out[1:1 + d], out[1 + d:1 + 2 * d], out[1 + 2 * d:]
    polys = []
    for c in range(nc):
        lin = (pe[:, c] - pm_[:, c]) / 2
        qd = (pe[:, c] + pm_[:, c] - 2 * p0[c]) / 2
        quad = [[i, i, qd[i]] for i in range(d) if qd[i] != 0]
        for k, (i, j) in enumerate(pairs):
            q = pp[k, c] - pe[i, c] - pe[j, c] + p0[c]
            if q != 0:
                quad.append([i, j, q])
        for v in list(lin) + [q for _, _, q in quad] + [p0[c]]:
            if v != int(v):
                raise InfraError("probing a Keras polynomial model gave non-integer coefficients")
        polys.append({"const": int(p0[c]), "lin": [int(v) for v in lin],
                      "quad": [[i, j, int(q)] for i, j, q in quad], "cub": []})
    # sanity: the recovered polynomial reproduces the model on random integer points
    rs = np.random.default_rng(12345)
    xt = rs.integers(-2, 3, size=(6, d)).astype(np.float64)
    want = model(tf.constant(xt.reshape((-1,) + tuple(shape)).astype(np.float32))).numpy()
    for c in range(nc):
        got = polys[c]["const"] + xt @ np.array(polys[c]["lin"], float)
        for i, j, q in polys[c]["quad"]:
            got = got + q * xt[:, i] * xt[:, j]
        if not np.array_equal(got, want[:, c].astype(np.float64)):
            raise InfraError("Keras model is not the probed degree-2 polynomial")
    return polys


def keras_poly_score(rng, kind, shape, nc):
    import tensorflow as tf
    L = tf.keras.layers
    inp = tf.keras.Input(shape=tuple(shape))
    ini = _int_init(rng)
    if kind == "img":
        kh, kw = int(rng.integers(1, min(2, shape[0]) + 1)), int(rng.integers(1, min(2, shape[1]) + 1))
        pad = "same" if rng.random() < 0.5 else "valid"
        f = int(rng.integers(1, 3))
        a = L.Conv2D(f, (kh, kw), padding=pad, kernel_initializer=ini, bias_initializer=ini)(inp)
        b = L.Conv2D(f, (kh, kw), padding=pad, kernel_initializer=ini, bias_initializer=ini)(inp)
        lin = L.Conv2D(f, (kh, kw), padding=pad, kernel_initializer=ini, bias_initializer=ini)(inp)
        s = L.Flatten()(L.Add()([L.Multiply()([a, b]), lin]))
    else:
        z = L.Flatten()(inp) if kind == "ts" else inp
        h = int(rng.integers(1, 4))
        a = L.Dense(h, kernel_initializer=ini, bias_initializer=ini)(z)
        b = L.Dense(h, kernel_initializer=ini, bias_initializer=ini)(z)
        lin = L.Dense(h, kernel_initializer=ini, bias_initializer=ini)(z)
        s = L.Add()([L.Multiply()([a, b]), lin])
    out = L.Dense(nc, kernel_initializer=ini, bias_initializer=ini)(s)
    model = tf.keras.Model(inp, out)
    polys = _probe_poly(model, shape, nc)
    return ScoreSpec(model, None, {"kind": "poly", "polys": polys}, "keras-poly", 2)


def keras_relu_score(rng, kind, shape, nc):
    import tensorflow as tf
    L = tf.keras.layers
    inp = tf.keras.Input(shape=tuple(shape))
    ini = _int_init(rng)
    d = int(np.prod(shape))
    if kind == "img" and rng.random() < 0.6:
        kh, kw = int(rng.integers(1, min(2, shape[0]) + 1)), int(rng.integers(1, min(2, shape[1]) + 1))
        pad = "same" if rng.random() < 0.5 else "valid"
        pre = L.Flatten()(L.Conv2D(int(rng.integers(1, 3)), (kh, kw), padding=pad,
                                   kernel_initializer=ini, bias_initializer=ini)(inp))
    else:
        z = inp if kind == "tab" else L.Flatten()(inp)
        pre = L.Dense(int(rng.integers(2, 5)), kernel_initializer=ini, bias_initializer=ini)(z)
    hid = L.ReLU()(pre)
    dense = L.Dense(nc, kernel_initializer=ini, bias_initializer=ini)
    out = dense(hid)
    model = tf.keras.Model(inp, out)
    # the affine pre-activation map, by probing the linear sub-model
    sub = tf.keras.Model(inp, pre)
    eye = np.eye(d, dtype=np.float32).reshape((d,) + tuple(shape))
    b0 = sub(tf.constant(np.zeros((1,) + tuple(shape), np.float32))).numpy()[0].astype(np.float64)
    A = (sub(tf.constant(eye)).numpy().astype(np.float64) - b0).T      # (h, d)
    W, c = [w.numpy().astype(np.float64) for w in dense.weights]       # (h, nc), (nc,)
    js = {"kind": "relu", "A": enc(A), "b": enc(b0), "W": enc(W.T), "c": enc(c)}
    return ScoreSpec(model, None, js, "keras-relu", 0)


def make_score(rng, label, kind, shape, nc, cub=0):
    if label == "poly-op":
        return poly_op_score(rng, shape, nc, quad=3, cub=cub)
    if label == "poly-op-quadratic":
        return poly_op_score(rng, shape, nc, quad=4, cub=0)
    if label == "keras-poly":
        return keras_poly_score(rng, kind, shape, nc)
    if label == "keras-relu":
        return keras_relu_score(rng, kind, shape, nc)
    raise InfraError("unknown score kind " + label)


class Observe:
    """wrap (do not replace) a static method of an xplique class in-process and log its calls"""

    def __init__(self, cls, name, log):
        self.cls, self.name, self.log = cls, name, log

    def __enter__(self):
        self.orig = self.cls.__dict__[self.name]
        fn = getattr(self.cls, self.name)
        log = self.log

        def wrapper(*a, **k):
            out = fn(*a, **k)
            log(a, k, out)
            return out
        setattr(self.cls, self.name, staticmethod(wrapper))
        return self

    def __exit__(self, *exc):
        setattr(self.cls, self.name, self.orig)
        return False
