"""C14 - Deletion / Insertion follow the documented curve, and only the ranking matters.

Implementation: xplique.metrics.Deletion / Insertion (detailed_evaluate and __call__) on a recording
NumPy polynomial model.  Model: Lean `Causal.detailedImpl` / `aucImpl` (generated max_nb / steps
arithmetic, same batch size, NumPy's linspace output as observed parameter);
Spec: Lean `Causal.detailedSpec` / `trapzSpec` / `stepsOk`.
"""
import json
import os
from fractions import Fraction

import numpy as np

from common import PolyModel, enc, fr, small_ints, VERIF

RULE = ("cases = (data kind tab/ts/img, sample shape, N, explanation layout same/nochan/one, mode deletion|insertion, "
        "steps in {1,3,10,-1,>F,...}, max_percentage in {1,1/2,1/3,1/4,3/4}, baseline constant|callable, batch size, "
        "activation, ties, additive) from a seeded generator; each case runs xplique Deletion/Insertion "
        "(detailed_evaluate + __call__) on a random integer polynomial model and compares keys, curve and AUC with "
        "the Lean Impl model and the Lean Spec; predicates on the implementation: keys evenly spaced, curve = "
        "reference curve, trapezoid, end points, rank-only (2x+1, x^3, exp), duality Ins(e)[c]=Del(-e)[F-c], "
        "top-k validity under ties (from recorded queries), optimum on additive scores vs random orderings, "
        "3-D vs (...,1) explanations, calls <= batch size; distinct = descriptor hash; non-trivial = curve not "
        "constant and at least 2 keys")

NONE_SIG = "numpy-callable model, batch_size=None"

BASELINES = {
    "half": lambda z: z * 0.0 + 0.5,
    "roll": lambda z: np.roll(z, 1, axis=-1) * 0.5,
    "chanmean": lambda z: np.mean(z, axis=-1, keepdims=True) * np.ones_like(z),
}


def raise_infra(msg):
    from common import InfraError
    raise InfraError(msg)


def _shape_info(kind, shape):
    if kind == "img":
        return int(shape[0] * shape[1]), int(shape[2])
    return int(np.prod(shape)), 1


def _sigmoid(v):
    return 1.0 / (1.0 + np.exp(-v))


def _activate(act, outs):
    outs = np.asarray(outs, dtype=np.float64)
    if act == "sigmoid":
        return _sigmoid(outs)
    if act == "softmax":
        e = np.exp(outs - outs.max(-1, keepdims=True))
        return e / e.sum(-1, keepdims=True)
    return outs


def make_expl(rng, d, n, shape, nf, chan):
    """explanations whose per-feature (channel-mean) values are small integers; tie-free unless d['ties']"""
    if d["ties"]:
        t = rng.integers(-2, 3, size=(n, nf)).astype(np.float32)
    else:
        t = np.stack([rng.permutation(nf) - nf // 2 for _ in range(n)]).astype(np.float32)
    lay = d["elayout"]
    if d["kind"] != "img":
        return t.reshape((n,) + tuple(shape)), t
    h, w, c = shape
    if lay == "nochan":
        return t.reshape(n, h, w), t
    if lay == "one":
        return t.reshape(n, h, w, 1), t
    # same layout as the inputs: channel values with exact mean t (offsets sum to 0)
    offs = np.zeros((n, nf, c), dtype=np.float32)
    for ch in range(c - 1):
        o = rng.integers(-2, 3, size=(n, nf)).astype(np.float32) * c
        offs[:, :, ch] += o
        offs[:, :, c - 1] -= o
    e = t[:, :, None] + offs
    return e.reshape(n, h, w, c), t


def build(d):
    rng = np.random.default_rng(d["case_seed"])
    shape = tuple(d["shape"])
    n = d["N"]
    nf, chan = _shape_info(d["kind"], shape)
    nflat = nf * chan
    nc = 2
    if d.get("additive"):
        model = PolyModel(rng, nflat, nc=nc, quad=0, cub=0)
        model.quad = [[(int(i), int(i), int(rng.integers(-2, 3))) for i in rng.choice(nflat, size=min(nflat, 3), replace=False)]
                      for _ in range(nc)]
    else:
        model = PolyModel(rng, nflat, nc=nc, quad=3, cub=1 if nflat > 2 else 0)
    x = small_ints(rng, (n,) + shape, -2, 2)
    y = small_ints(rng, (n, nc), -2, 2)
    if d.get("activation"):
        y = np.abs(y) + np.eye(nc, dtype=np.float32)[rng.integers(nc, size=n)]
    e, t = make_expl(rng, d, n, shape, nf, chan)
    b = d["baseline"]
    if isinstance(b, str):
        bfun = BASELINES[b]
        base_arr = np.asarray(bfun(x), dtype=np.float32)
        bmode = bfun
    else:
        base_arr = np.ones_like(x, dtype=np.float32) * np.float32(b)
        bmode = float(b)
    return dict(rng=rng, shape=shape, n=n, nf=nf, chan=chan, model=model, x=x, y=y, e=e, t=t,
                base=base_arr, bmode=bmode, nc=nc)


def metric(d, B, mode=None):
    from xplique.metrics import Deletion, Insertion
    cls = Deletion if (mode or d["mode"]) == "deletion" else Insertion
    pn, pd = d["p"]
    pm = B["model"]
    if d.get("route", "callable") == "operator":
        # explicit operator on a TensorFlow function (eager): same polynomial, recorded the same way
        import tensorflow as tf

        def tf_model(z):
            zz = np.asarray(z, dtype=np.float64)
            pm.calls.append(int(zz.shape[0]))
            if pm.record:
                pm.queries.append(zz.reshape(zz.shape[0], -1).copy())
            return pm.tf_outputs(tf.convert_to_tensor(z, tf.float32))
        return cls(tf_model, B["x"], B["y"], batch_size=d["bs"], baseline_mode=B["bmode"],
                   steps=d["steps"], max_percentage_perturbed=pn / pd, activation=d.get("activation"),
                   operator=lambda f, x_, y_: tf.reduce_sum(f(x_) * y_, -1))
    return cls(pm, B["x"], B["y"], batch_size=d["bs"], baseline_mode=B["bmode"],
               steps=d["steps"], max_percentage_perturbed=pn / pd, activation=d.get("activation"))


def score_np(d, B, z):
    """mean over samples of the explained score on inputs z (n, ...) computed directly (float64)"""
    outs = B["model"].outputs(np.asarray(z, dtype=np.float64).reshape(B["n"], -1))
    outs = _activate(d.get("activation"), outs)
    return float(np.mean((outs * B["y"].astype(np.float64)).sum(-1)))


def run_case(ctx, d):
    B = build(d)
    n, nf, chan, model, x, y, e = B["n"], B["nf"], B["chan"], B["model"], B["x"], B["y"], B["e"]
    pn, pd = d["p"]
    act = d.get("activation")
    tol = dict(rtol=1e-4, atol=2e-5) if act else {}

    def impl():
        m = metric(d, B)
        model.calls.clear()
        model.record = True
        model.queries = []
        det = m.detailed_evaluate(e)
        model.record = False
        q = model.queries
        calls = list(model.calls)
        with np.errstate(all="ignore"):
            import warnings
            with warnings.catch_warnings():
                warnings.simplefilter("ignore")
                auc = m(e)
        return m, det, auc, q, calls
    sig = None
    if d.get("route", "callable") == "callable" and d["bs"] is None:
        sig = NONE_SIG      # was a defect of the tree (AttributeError), repaired by /repo commit 112450f
    ok, out = ctx.impl_call(d, impl, signature=sig)
    if not ok:
        ctx.case(d, False)
        return
    m, det, auc, queries, calls = out
    keys = [int(k) for k in det.keys()]
    vals = [float(v) for v in det.values()]

    # the property's own quantities: M = floor(p * F), S = steps (or M for -1); NumPy's linspace for
    # them is a trusted primitive whose output is judged by Lean's `stepsOk`
    M_py = int(m.max_nb_perturbed)
    S_py = int(m.steps)
    M_true = (nf * pn) // pd
    S_true = M_true if d["steps"] == -1 else d["steps"]
    lin = [int(v) for v in np.linspace(0, M_true, S_true + 1, dtype=np.int32)]
    ce = None
    if d["kind"] == "img" and d["elayout"] == "same":
        ce = chan
    elif d["kind"] == "img" and d["elayout"] == "one":
        ce = 1
    r = ctx.driver.call({"op": "causal", "deletion": d["mode"] == "deletion", "chan": chan, "ce": ce,
                         "polys": model.json(), "bs": d["bs"], "xs": enc(x.reshape(n, -1)),
                         "bases": enc(B["base"].reshape(n, -1)), "es": enc(e.reshape(n, -1)), "ys": enc(y),
                         "nf": nf, "pn": pn, "pd": pd, "steps": d["steps"], "lin": lin,
                         "want_outs": bool(act)})
    M, S = int(r["M"]), int(r["S"])
    ctx.count("kind", d["kind"])
    ctx.count("mode", d["mode"])
    ctx.count("route", d.get("route", "callable"))
    ctx.count("steps_vs_F", "minus1" if d["steps"] == -1 else ("gt" if d["steps"] > nf else "le"))
    ctx.count("p", f"{pn}/{pd}")
    ctx.count("bs_vs_N", "none" if d["bs"] is None else ("lt" if d["bs"] < n else "ge"))
    ctx.count("baseline", d["baseline"] if isinstance(d["baseline"], str) else "const")
    ctx.count("elayout", d["elayout"])
    ctx.count("activation", str(act))
    ctx.count("ties", str(d["ties"]))
    nontrivial = len(keys) >= 2 and len(set(np.round(vals, 6).tolist())) > 1
    ctx.case(d, nontrivial)

    # --- generated arithmetic vs the object's attributes, linspace arguments
    ctx.check_corr("causal_max_nb_steps", [M_py, S_py], [Fraction(M), Fraction(S)], d)
    ctx.check_corr("causal_linspace_args", [0, M_py, S_py + 1], r["lin_args"], d)
    # --- keys: evenly spaced from 0 to floor(p*F)
    ctx.check_prop("max-nb-is-floor", M_py == M_true, d, {"M_py": M_py, "want": M_true})
    ctx.check_prop("steps-rule", S_py == S_true, d, {"S_py": S_py, "want": S_true})
    if M == M_true and S == S_true and not r["steps_ok"]:
        raise_infra(f"np.linspace(0,{M_true},{S_true + 1},int32) left the evenly-spaced band: {lin}")
    ctx.check_prop("keys-evenly-spaced", keys == [int(k) for k in r["spec_keys"]], d,
                   {"impl_keys": keys, "spec_keys": [int(k) for k in r["spec_keys"]], "M": M_true, "S": S_true})
    same_keys = keys == [int(k) for k in r["impl_keys"]]
    ctx.check_corr("causal_keys_impl_model", keys, r["impl_keys"], d)
    ctx.check_prop("dtype", all(isinstance(v, (float, np.floating)) for v in det.values()), d)

    # --- curve values
    if act:
        outs = r["outs"]     # [key][sample][class] raw outputs at the flipped inputs (Spec side)
        spec_vals = []
        for ko in outs:
            a = _activate(act, [[float(v) for v in row] for row in ko])
            spec_vals.append(Fraction(float(np.mean((a * y.astype(np.float64)).sum(-1)))))
        impl_vals_m = spec_vals
    else:
        spec_vals = r["spec_vals"]
        impl_vals_m = r["impl_vals"]
    tie_free = not d["ties"]
    if same_keys and tie_free:
        ctx.check_corr("causal_curve_impl_model", vals, impl_vals_m, d, **tol)
    if keys == [int(k) for k in r["spec_keys"]] and tie_free:
        ctx.check_pred("curve-reference", vals, spec_vals, d, **tol)

    # --- AUC: trapezoidal mean of the dict values
    if len(vals) >= 2:
        v64 = [fr(v) for v in vals]
        trap = (sum(v64) - (v64[0] + v64[-1]) / 2) / (len(v64) - 1)
        ctx.check_pred("auc-trapezoid", [auc], [trap], d, rtol=1e-4, atol=2e-5)
        if same_keys and tie_free and not act:
            ctx.check_corr("causal_auc_impl_model", [auc], [r["auc"]], d, rtol=1e-4, atol=2e-5)
            ctx.check_pred("auc-reference", [auc], [r["trapz"]], d, rtol=1e-4, atol=2e-5)
    else:
        ctx.check_prop("auc-single-point-nan", auc != auc, d, {"auc": float(auc)})
        ctx.count("single_key")

    # --- end points
    start, end = (x, B["base"]) if d["mode"] == "deletion" else (B["base"], x)
    if keys and keys[0] == 0:
        ctx.check_pred("endpoint-start", [vals[0]], [Fraction(score_np(d, B, start))], d, **(tol or dict(rtol=1e-5)))
    if (pn, pd) == (1, 1) and keys and keys[-1] == nf:
        ctx.check_pred("endpoint-end", [vals[-1]], [Fraction(score_np(d, B, end))], d, **(tol or dict(rtol=1e-5)))

    # --- top-k validity from the recorded queries (tie tolerant; needs x != baseline everywhere)
    check_topk(ctx, d, B, queries, [int(v) for v in np.linspace(0, M_py, S_py + 1, dtype=np.int32)], start, end)

    # --- batch size respected
    if d["bs"] is not None and calls:
        ctx.check_prop("calls_le_batch_size", max(calls) <= d["bs"], d, {"max_call": max(calls), "bs": d["bs"]})

    # --- relations between metric values (second-order predicates)
    extra = d.get("extra", [])
    if "rank" in extra:
        # rank-preserving maps, including exact power-of-two rescalings to tiny / huge magnitudes (no threshold on |attribution|)
        phis = [("2x+1", lambda a: 2 * a + 1), ("x*2^-30", lambda a: a * np.float32(2.0 ** -30)), ("x*2^20", lambda a: a * np.float32(2.0 ** 20))]
        if ce != chan or chan == 1:
            phis += [("x^3", lambda a: a ** 3), ("exp", lambda a: np.exp(a / 4).astype(np.float32))]
        for name, phi in phis:
            ok2, o2 = ctx.impl_call(d, lambda: (metric(d, B).detailed_evaluate(phi(e)), metric(d, B)(phi(e))))
            if ok2:
                d2, a2 = o2
                ctx.check_pred("rank-only", list(d2.values()) + [a2] if len(vals) >= 2 else list(d2.values()),
                               [Fraction(float(v)) for v in (vals + [auc] if len(vals) >= 2 else vals)], d,
                               signature="rank-only " + name)
                ctx.check_prop("rank-only-keys", [int(k) for k in d2.keys()] == keys, d)
    if "dual" in extra and tie_free:
        other = "insertion" if d["mode"] == "deletion" else "deletion"
        ok2, d2 = ctx.impl_call(d, lambda: metric(d, B, mode=other).detailed_evaluate(-e))
        if ok2:
            k2 = {int(k): float(v) for k, v in d2.items()}
            pairs = [(c, nf - c) for c in keys if (nf - c) in k2]
            ctx.count("duality_points", n=len(pairs))
            if pairs:
                ctx.check_pred("duality", [vals[keys.index(c)] for c, _ in pairs],
                               [Fraction(k2[c2]) for _, c2 in pairs], d)
    if "one" in extra and d["kind"] == "img" and d["elayout"] == "nochan":
        ok2, d2 = ctx.impl_call(d, lambda: metric(d, B).detailed_evaluate(e[..., None]))
        if ok2:
            ctx.check_pred("channel-axis-one-agrees", list(d2.values()), [Fraction(v) for v in vals], d)
    if d.get("additive") and not act:
        check_optimum(ctx, d, B, vals, keys)


def check_topk(ctx, d, B, queries, lin, start, end):
    """each model query must be `start` with a set S_k of exactly k features taken from `end`
    (all channels of a feature together), S_k being k highest-ranked features of the explanation"""
    n, nf, chan = B["n"], B["nf"], B["chan"]
    if not queries:
        return
    q = np.concatenate(queries, axis=0)
    if q.shape[0] != n * len(lin):
        ctx.check_prop("one-query-per-sample-and-step", False, d, {"queries": int(q.shape[0]), "want": n * len(lin)})
        return
    q = q.reshape(len(lin), n, nf, chan)
    s = np.asarray(start, dtype=np.float64).reshape(n, nf, chan)
    en = np.asarray(end, dtype=np.float64).reshape(n, nf, chan)
    t = B["t"]
    ok_rows = ok_sets = ok_top = True
    detail = None
    for j, k in enumerate(lin):
        for i in range(n):
            is_end = np.all(q[j, i] == en[i], axis=-1)
            is_start = np.all(q[j, i] == s[i], axis=-1)
            differs = np.any(s[i] != en[i], axis=-1)
            if not np.all(is_end | is_start):
                ok_rows = False
                detail = detail or {"step": int(k), "sample": i, "why": "a feature row is neither start nor end"}
                continue
            flipped = is_end & differs
            undecided = ~differs          # start == end on this feature: cannot tell
            lo, hi = int(flipped.sum()), int(flipped.sum() + undecided.sum())
            if not lo <= k <= hi:
                ok_sets = False
                detail = detail or {"step": int(k), "sample": i, "flipped": lo, "undecided": int(undecided.sum())}
                continue
            if undecided.any():
                continue
            if k and k < nf and t[i][flipped].min() < t[i][~flipped].max():
                ok_top = False
                detail = detail or {"step": int(k), "sample": i, "why": "a flipped feature ranks below an unflipped one"}
    ctx.check_prop("channels-move-together", ok_rows, d, detail)
    ctx.check_prop("k-features-flipped", ok_sets, d, detail)
    ctx.check_prop("k-highest-ranked-flipped", ok_top, d, detail)


def check_optimum(ctx, d, B, vals, keys):
    """additive score, e = exact attributions: the curve is optimal against random orderings"""
    n, nf, chan, x = B["n"], B["nf"], B["chan"], B["x"]
    rng = np.random.default_rng(d["case_seed"] + 1)
    xs = x.reshape(n, nf, chan).astype(np.float64)
    bs_ = B["base"].reshape(n, nf, chan).astype(np.float64)
    model = B["model"]
    yy = B["y"].astype(np.float64)
    full = (model.outputs(xs.reshape(n, -1)) * yy).sum(-1)
    a = np.zeros((n, nf), dtype=np.float32)
    for i in range(nf):
        z = xs.copy()
        z[:, i, :] = bs_[:, i, :]
        a[:, i] = full - (model.outputs(z.reshape(n, -1)) * yy).sum(-1)
    shape_e = (n,) + tuple(B["shape"][:2] if d["kind"] == "img" else B["shape"])
    ok, dopt = ctx.impl_call(d, lambda: metric(d, B).detailed_evaluate(a.reshape(shape_e)))
    if not ok:
        return
    vopt = np.array(list(dopt.values()), dtype=np.float64)
    sign = 1.0 if d["mode"] == "deletion" else -1.0
    worst = 0.0
    for _ in range(6 * ctx.budget_scale):
        er = rng.normal(size=shape_e).astype(np.float32)
        ok, dr = ctx.impl_call(d, lambda: metric(d, B).detailed_evaluate(er))
        if not ok:
            return
        vr = np.array(list(dr.values()), dtype=np.float64)
        if vr.shape != vopt.shape or vr.size == 0:
            return          # keys are judged by the key predicates
        worst = max(worst, float(np.max(sign * (vopt - vr))))
    ctx.count("optimum_checked")
    ctx.check_prop("additive-optimum", worst <= 1e-4 * max(1.0, float(np.abs(vopt).max())), d,
                   {"worst_excess": worst, "mode": d["mode"]})


def gen_cases(ctx):
    rng = ctx.rng
    thorough = ctx.tier == "thorough"
    ncases = (1500 if thorough else 110) * ctx.budget_scale
    dmax = 6 if thorough else 4
    cases = []
    step_choices = [1, 3, 10, -1, "gt", "gt2", 2, 4, 5]
    ps = [(1, 1), (1, 2), (1, 3), (1, 4), (3, 4), (2, 3)]
    bases = [0.0, 0.5, -1.0, "half", "roll", "chanmean"]
    for ci in range(ncases):
        kind = ["tab", "ts", "img"][int(rng.integers(3))] if ci >= 9 else ["tab", "ts", "img"][ci % 3]
        if kind == "tab":
            shape = (int(rng.integers(2, 2 * dmax + 1)),)
        elif kind == "ts":
            shape = (int(rng.integers(1, dmax + 1)), int(rng.integers(2, dmax + 1)))
        else:
            shape = (int(rng.integers(1, dmax + 1)), int(rng.integers(2, dmax + 1)), int(rng.integers(1, 4)))
        nf, chan = _shape_info(kind, shape)
        st = step_choices[ci % len(step_choices)] if ci < 2 * len(step_choices) else step_choices[int(rng.integers(len(step_choices)))]
        if st == "gt":
            st = nf + int(rng.integers(1, 4))
        elif st == "gt2":
            st = 2 * nf + int(rng.integers(0, 30))
        pn, pd = ps[ci % 3] if ci < 12 else ps[int(rng.integers(len(ps)))]
        if pd & (pd - 1) and (nf * pn) % pd == 0:
            pn, pd = 1, 2          # float product floor(nf * p) would be ambiguous for a non-dyadic p
        elayout = "same"
        if kind == "img":
            elayout = ["same", "nochan", "one"][int(rng.integers(3))]
        u = rng.random()
        act = None if u < 0.8 else ("sigmoid" if u < 0.9 else "softmax")
        additive = act is None and rng.random() < 0.15
        extra = []
        v = rng.random()
        if v < 0.3:
            extra.append("rank")
        elif v < 0.55:
            extra.append("dual")
        if kind == "img" and elayout == "nochan" and rng.random() < 0.6:
            extra.append("one")
        route = "operator" if rng.random() < 0.35 else "callable"
        bs = [None, 1, 2, 3, 5, 64][int(rng.integers(6))]
        d = {"kind": kind, "shape": list(shape), "N": int(rng.integers(1, 5)), "elayout": elayout,
             "mode": "deletion" if rng.random() < 0.5 else "insertion", "steps": int(st), "p": [pn, pd],
             "baseline": bases[int(rng.integers(len(bases)))],
             "route": route, "bs": bs, "activation": act,
             "ties": bool(rng.random() < 0.2), "additive": bool(additive), "extra": extra,
             "case_seed": int(rng.integers(1 << 31))}
        if "dual" in extra and rng.random() < 0.6:
            d["p"] = [1, 1]
            if rng.random() < 0.5:
                d["steps"] = -1
        cases.append(d)
    return cases


def corpus_cases():
    p = os.path.join(VERIF, "corpus", "C14")
    out = []
    if os.path.isdir(p):
        for fn in sorted(os.listdir(p)):
            if fn.endswith(".json"):
                out.append(json.load(open(os.path.join(p, fn))))
    return out


def run(ctx):
    for d in corpus_cases() + gen_cases(ctx):
        run_case(ctx, d)


def replay(ctx, r):
    run_case(ctx, r["case"] if "case" in r else r["first_disagreement"][0])
