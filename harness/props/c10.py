"""C10 - DeconvNet / GuidedBackprop / Grad-CAM(++) implement their published rules.

Part "relu": functional Keras models with small integer weights mixing Dense(activation=relu),
Activation('relu'), ReLU(), ReLU(max_value, threshold), other activations (relu6, LeakyReLU), linear
layers and leading convolutions (given to Lean by their exact matrix); xplique.DeconvNet /
GuidedBackprop vs the Lean network model `Net.explain` (correspondence) and vs the published procedure
`Net.specBackward` on the original network (property), plus forward-unchanged / user-model-untouched.

Part "cam": conv models with non-square inputs; A and G = dscore/dA come from an independent
GradientTape; Lean computes weights and maps (`GradCam.explain` / `GradCam.specCam`), the harness
resizes Lean's maps with the same tf.image.resize(BICUBIC) call.
"""
import json
import os
from fractions import Fraction

import numpy as np

from common import enc, VERIF

# TensorFlow 2.21 + oneDNN on this CPU computes a BATCHED tf.nn.conv2d wrongly for some geometries (kernel (1,3),
# strides (1,2), VALID, batch 12: rows of the result are shifted; batch 1 and TF_ENABLE_ONEDNN_OPTS=0 are right).
# The conv primitive is in the trusted base, so the check runs TensorFlow with the reference kernels.
# (this module is imported before TensorFlow)
os.environ.setdefault("TF_ENABLE_ONEDNN_OPTS", "0")

RULE = ("relu part: case = (architecture drawn from {Dense linear/relu/tf.nn.relu/relu6, Activation relu/relu6, "
        "ReLU(), ReLU(max_value,threshold), LeakyReLU, optional leading Conv2D(+relu)+Flatten}, depth 2..6 "
        "computing layers, widths 1..4, integer weights in [-2,2], N, batch size, integer inputs, quarter-integer "
        "real-valued targets); every case runs DeconvNet AND GuidedBackprop; compared with Lean Net.explain "
        "(same batch size), Net.specBackward, Net.forward, plus byte-identity of model(x) / get_weights() / "
        "activation and call attributes before and after. cam part: case = (non-square input H!=W, 1..3 Conv2D "
        "with non-square kernels / strides / padding, head, layer chosen by default / name / +index / -index, N, bs); "
        "GradCAM and GradCAMPP vs Lean GradCam.explain / specCam resized by tf.image.resize(BICUBIC); static "
        "_compute_weights / _apply_weights vs Lean weights / maps. distinct = descriptor hash; non-trivial = the "
        "network has at least one ReLU unit and the three gradients (true, deconv, guided) are not all equal "
        "(relu) / the map is not constant (cam)")



# --------------------------------------------------------------------------------------
# relu part
# --------------------------------------------------------------------------------------
def _act_obj(tf, name):
    return {"linear": None, "relu": "relu", "relu_fn": tf.nn.relu, "relu_k": tf.keras.activations.relu,
            "relu6": "relu6"}[name]


def _act_json(name):
    if name in ("relu", "relu_fn", "relu_k"):
        return "relu"
    if name == "relu6":
        return {"name": "relu6"}
    return "linear"


def build_relu_model(tf, d, rng):
    """Keras functional model from the descriptor; weights drawn from rng (reproducible)."""
    L = tf.keras.layers
    inp = tf.keras.Input(tuple(d["in_shape"]))
    h = inp
    for spec in d["arch"]:
        k = spec[0]
        if k == "dense":
            h = L.Dense(spec[1], activation=_act_obj(tf, spec[2]))(h)
        elif k == "conv":
            _, f, kh, kw, sh, sw, pad, act = spec
            h = L.Conv2D(f, (kh, kw), strides=(sh, sw), padding=pad, activation=_act_obj(tf, act))(h)
        elif k == "flatten":
            h = L.Flatten()(h)
        elif k == "relu":
            _, mx, thr, slope = spec
            h = L.ReLU(max_value=mx, threshold=thr, negative_slope=slope)(h)
        elif k == "act":
            h = L.Activation(_act_obj(tf, spec[1]))(h)
        elif k == "leaky":
            h = L.LeakyReLU(negative_slope=spec[1])(h)
        else:
            raise ValueError(k)
    model = tf.keras.Model(inp, h)
    model.set_weights([rng.integers(-2, 3, size=w.shape).astype("float32") for w in model.get_weights()])
    return model


def lean_layers(tf, d, model):
    """Lean layer list: kinds from the descriptor, kernels / biases read back from the Keras model;
    a convolution is handed over as its exact matrix (rows = flattened input cells)."""
    out = []
    klayers = model.layers[1:]          # skip the InputLayer
    assert len(klayers) == len(d["arch"])
    for spec, kl in zip(d["arch"], klayers):
        k = spec[0]
        if k == "dense":
            W, b = kl.get_weights()
            out.append({"kind": "dense", "W": enc(W), "b": enc(b), "act": _act_json(spec[2])})
        elif k == "conv":
            ishape = tuple(int(s) for s in kl.input.shape[1:])
            n_in = int(np.prod(ishape))
            E = np.eye(n_in, dtype="float32").reshape((n_in,) + ishape)
            M = tf.nn.conv2d(E, kl.kernel, strides=kl.strides, padding=kl.padding.upper()).numpy().reshape(n_in, -1)
            n_out = M.shape[1]
            bias = kl.bias.numpy()
            b = np.tile(bias, n_out // bias.shape[0])       # channel is the fastest axis of the flattened output
            out.append({"kind": "dense", "W": enc(M), "b": enc(b), "act": _act_json(spec[7])})
        elif k == "flatten":
            out.append({"kind": "act", "act": "linear"})
        elif k == "relu":
            _, mx, thr, slope = spec
            out.append({"kind": "relu", "max": None if mx is None else enc(mx), "thr": enc(thr), "slope": enc(slope)})
        elif k == "act":
            out.append({"kind": "act", "act": _act_json(spec[1])})
        elif k == "leaky":
            out.append({"kind": "act", "act": {"name": "leaky", "slope": enc(spec[1])}})
    return out


def _snapshot(model, x):
    return (model(x).numpy().tobytes(),
            [w.tobytes() for w in model.get_weights()],
            [(id(getattr(l, "activation", None)), "call" in l.__dict__, type(l).__name__) for l in model.layers])


def run_relu_case(ctx, d):
    import tensorflow as tf
    from xplique.attributions import DeconvNet, GuidedBackprop
    rng = np.random.default_rng(d["case_seed"])
    model = build_relu_model(tf, d, rng)
    n = d["N"]
    in_shape = tuple(d["in_shape"])
    x = rng.integers(-2, 3, size=(n,) + in_shape).astype("float32")
    nout = int(model.output.shape[-1])
    y = (rng.integers(-8, 9, size=(n, nout)) / 4).astype("float32")
    bs = d["bs"]
    negslope = any(s[0] == "relu" and s[3] != 0 for s in d["arch"])
    layers = lean_layers(tf, d, model)
    snap0 = _snapshot(model, x)
    y0 = model(x).numpy()
    xt = tf.constant(x)
    with tf.GradientTape() as tape:
        tape.watch(xt)
        s = tf.reduce_sum(model(xt) * y, axis=-1)
    gtrue = tape.gradient(s, xt).numpy()
    res = {}
    ok_all = True
    for rule, cls in (("deconv", DeconvNet), ("guided", GuidedBackprop)):
        dd = dict(d, rule=rule)

        def impl():
            expl = cls(model, batch_size=bs, reducer=None)
            return expl, expl(x, y).numpy(), expl.model(x).numpy()
        ok, r = ctx.impl_call(dd, impl)
        if not ok:
            ok_all = False
            continue
        expl, out, yover = r
        res[rule] = out
        lm = ctx.driver.call({"op": "relunet", "rule": rule, "bs": bs, "layers": layers,
                              "xs": enc(x.reshape(n, -1)), "ys": enc(y)})
        # translation of the Keras model into the Lean network is validated first
        ctx.check_corr("relunet_forward", y0.reshape(n, -1), lm["forward"], dd)
        if not any(s[0] == "relu" and s[1] == 6 for s in d["arch"]):
            ctx.check_corr("relunet_true_gradient", gtrue.reshape(n, -1), lm["true_grad"], dd)
        # property predicates on the implementation
        ctx.check_prop("forward-unchanged", yover.tobytes() == y0.tobytes(), dd,
                       {"model(x)": y0.tolist(), "explainer.model(x)": yover.tolist()})
        ctx.check_prop("user-model-untouched", _snapshot(model, x) == snap0, dd,
                       {"what": "model(x) / get_weights() / activation ids / call attributes changed"})
        ctx.check_prop("not-same-object", expl.model is not model, dd)
        ctx.check_prop("shape", tuple(out.shape) == tuple(x.shape), dd, {"got": list(out.shape)})
        ctx.check_prop("dtype", str(out.dtype) == "float32", dd, {"dtype": str(out.dtype)})
        if tuple(out.shape) == tuple(x.shape):
            ctx.check_corr("deconvnet_impl_model", out.reshape(n, -1), lm["impl"], dd)
            ctx.check_pred("published-rule", out.reshape(n, -1), lm["spec"], dd)
        ctx.count("relu_units", min(int(lm["nrelu"]), 4))
    # ---- output_layer given (added after seeded changes were missed): the explainer works on the model truncated
    #      at that layer, and the USER'S model (whose layers the truncated model shares) must stay untouched
    if d.get("output_layer") and ok_all:
        cand = [i for i, l in enumerate(model.layers) if i > 0 and l.output is not model.output
                and len(l.output.shape) == 2]
        if cand:
            k = cand[-1]
            ref = [k, k - len(model.layers), model.layers[k].name][d["case_seed"] % 3]
            trunc = tf.keras.Model(model.input, model.layers[k].output)
            yk = (rng.integers(-8, 9, size=(n, int(model.layers[k].output.shape[-1]))) / 4).astype("float32")
            for rule, cls in (("deconv", DeconvNet), ("guided", GuidedBackprop)):
                dd = dict(d, rule=rule, output_layer_ref=ref)
                ok, e1 = ctx.impl_call(dd, lambda: cls(model, output_layer=ref, batch_size=bs, reducer=None)(x, yk).numpy(),
                                       signature="output_layer")
                if not ok:
                    continue
                ok2, e2 = ctx.impl_call(dd, lambda: cls(trunc, batch_size=bs, reducer=None)(x, yk).numpy(), signature="on-truncated-model")
                if not ok2:
                    continue
                ctx.count("relu_output_layer_cases")
                ctx.check_prop("output-layer-truncates", e1.shape == e2.shape and bool(np.allclose(e1, e2, rtol=1e-5, atol=1e-6)),
                               dd, {"with_output_layer": e1.reshape(-1)[:6].tolist(), "truncated_model": e2.reshape(-1)[:6].tolist()})
                ctx.check_prop("user-model-untouched", _snapshot(model, x) == snap0, dd,
                               {"what": "after an explainer built with output_layer: model(x) / weights / activation ids / call attributes changed"})
                with tf.GradientTape() as tape2:
                    tape2.watch(xt)
                    s2 = tf.reduce_sum(model(xt) * y, axis=-1)
                g2 = tape2.gradient(s2, xt).numpy()
                ctx.check_prop("user-model-untouched", bool(np.array_equal(g2, gtrue)), dd,
                               {"what": "true gradient of the user's model changed after building an explainer with output_layer"})
                # a plain explainer built afterwards still gives the earlier result
                ok, e3 = ctx.impl_call(dd, lambda: cls(model, batch_size=bs, reducer=None)(x, y).numpy(), signature="after-output_layer")
                if ok and rule in res:
                    ctx.check_prop("published-rule", bool(np.allclose(e3, res[rule], rtol=1e-5, atol=1e-6)), dd,
                                   {"what": "explainer built after one with output_layer differs from the one built before"})
    kinds = sorted({s[0] + (":" + str(s[2]) if s[0] == "dense" else "") +
                    (":variant" if s[0] == "relu" and (s[1] is not None or s[2] != 0) else "") for s in d["arch"]})
    for k in kinds:
        ctx.count("layer_kinds", k)
    ctx.count("relu_bs", "none" if bs is None else ("lt" if bs < n else "ge"))
    ctx.count("relu_input", "image" if len(in_shape) == 3 else "tabular")
    if negslope:
        ctx.count("negative_slope_cases")
    nontrivial = ok_all and len(res) == 2 and not (np.array_equal(res["deconv"], res["guided"])
                                                   and np.array_equal(res["deconv"], gtrue))
    ctx.case(d, nontrivial)


def gen_relu_cases(ctx):
    rng = ctx.rng
    thorough = ctx.tier == "thorough"
    ncases = (900 if thorough else 110) * ctx.budget_scale
    cases = []
    for _ in range(ncases):
        arch = []
        image = rng.random() < 0.25
        if image:
            hh, ww = int(rng.integers(2, 5)), int(rng.integers(2, 6))
            if hh == ww:
                ww += 1
            in_shape = [hh, ww, int(rng.integers(1, 3))]
            nconv = 1 if rng.random() < 0.7 else 2
            ch, cw = hh, ww
            for _c in range(nconv):
                kh, kw = int(rng.integers(1, min(ch, 2) + 1)), int(rng.integers(1, min(cw, 3) + 1))
                sh, sw = int(rng.integers(1, 3)), int(rng.integers(1, 3))
                pad = "valid" if rng.random() < 0.6 else "same"
                act = ["relu", "linear", "relu"][int(rng.integers(3))]
                arch.append(["conv", int(rng.integers(1, 3)), kh, kw, sh, sw, pad, act])
                if pad == "valid":
                    ch, cw = (ch - kh) // sh + 1, (cw - kw) // sw + 1
                else:
                    ch, cw = -(-ch // sh), -(-cw // sw)
            arch.append(["flatten"])
        else:
            in_shape = [int(rng.integers(1, 5))]
        depth = int(rng.integers(2, 7)) - (1 if image else 0)
        nleaky = 0
        negslope = rng.random() < 0.15
        for i in range(max(depth, 1)):
            units = int(rng.integers(1, 5))
            r = rng.random()
            if r < 0.30:
                arch.append(["dense", units, ["relu", "relu_fn", "relu_k"][int(rng.integers(3))]])
            elif r < 0.55:
                arch.append(["dense", units, "linear"])
                q = rng.random()
                if q < 0.35:
                    arch.append(["relu", None, 0.0, 0.0])
                elif q < 0.75:
                    mx = [None, 1.0, 1.5, 2.0, 3.0][int(rng.integers(5))]
                    thr = [0.0, 0.5, 1.0, 2.0][int(rng.integers(4))]
                    arch.append(["relu", mx, thr, 0.0])
                elif q < 0.9:
                    arch.append(["act", "relu"])
            elif r < 0.65:
                arch.append(["dense", units, "linear"])
            elif r < 0.75:
                arch.append(["dense", units, "relu6"])
            elif r < 0.85 and nleaky < 2:
                nleaky += 1
                arch.append(["dense", units, "linear"])
                arch.append(["leaky", 0.5])
            else:
                arch.append(["dense", units, "linear"])
                arch.append(["act", ["relu", "relu6"][int(rng.integers(2))]])
        if negslope:
            prefix = sum(1 for a in arch if a[0] in ("conv", "flatten"))
            pos = int(rng.integers(prefix, len(arch) + 1))
            arch.insert(pos, ["relu", [None, 2.0][int(rng.integers(2))], [0.0, 1.0][int(rng.integers(2))],
                              [0.5, 0.25][int(rng.integers(2))]])
            if pos == len(arch) - 1:
                arch.append(["dense", int(rng.integers(1, 4)), "linear"])
        cases.append({"part": "relu", "arch": arch, "in_shape": in_shape, "N": int(rng.integers(1, 6)),
                      "output_layer": bool(rng.random() < 0.35),
                      "bs": [None, 1, 2, 3, 32][int(rng.integers(5))], "case_seed": int(rng.integers(1 << 31))})
    return cases


# --------------------------------------------------------------------------------------
# Grad-CAM part
# --------------------------------------------------------------------------------------
def build_cam_model(tf, d, rng):
    L = tf.keras.layers
    inp = tf.keras.Input(tuple(d["in_shape"]), name="inp")
    h = inp
    for i, spec in enumerate(d["convs"]):
        f, kh, kw, sh, sw, pad, act, post = spec
        h = L.Conv2D(f, (kh, kw), strides=(sh, sw), padding=pad, activation=None if act == "linear" else act,
                     name=f"c{i}")(h)
        if post == "relu":
            h = L.ReLU(name=f"r{i}")(h)
    if d["head"] == "gap":
        h = L.GlobalAveragePooling2D(name="gap")(h)
    else:
        h = L.Flatten(name="flat")(h)
    if d.get("hidden"):
        h = L.Dense(d["hidden"], activation="relu", name="hid")(h)
    out = L.Dense(d["nc"], name="out")(h)
    if d.get("output_layer") is not None:
        out = L.Softmax(name="sm")(out)
    model = tf.keras.Model(inp, out)
    model.set_weights([rng.integers(-2, 3, size=w.shape).astype("float32") for w in model.get_weights()])
    return model


def _pp_illconditioned(A, G):
    """Grad-CAM++ divides by den = 2G^2 + G^3 mean(A); when den (exactly) vanishes or nearly cancels while
    G != 0 the float32 implementation is numerically unstable (property text: up to float rounding)."""
    n, p, k = A.shape
    pow2 = (p & (p - 1)) == 0
    for s in range(n):
        for c in range(k):
            avg = Fraction(int(A[s, :, c].sum())) / p if float(A[s, :, c].sum()).is_integer() else \
                sum(Fraction(float(v)) for v in A[s, :, c]) / p
            for g in set(G[s, :, c].tolist()):
                if g == 0:
                    continue
                gf = Fraction(float(g))
                den = 2 * gf * gf + gf ** 3 * avg
                if den == 0 and pow2:
                    continue        # exact in float32 as well: the eps guard fires on both sides
                if abs(den) < Fraction(1, 10) * 2 * gf * gf:
                    return True
    return False


def run_cam_case(ctx, d):
    import tensorflow as tf
    from xplique.attributions import GradCAM, GradCAMPP
    rng = np.random.default_rng(d["case_seed"])
    model = build_cam_model(tf, d, rng)
    n = d["N"]
    H, W, C = d["in_shape"]
    x = rng.integers(-2, 3, size=(n, H, W, C)).astype("float32")
    y = (rng.integers(-4, 5, size=(n, d["nc"])) / 2).astype("float32")
    if not np.any(y):
        y[0, 0] = 1.0
    bs = d["bs"]
    ref = d["layer_ref"]
    names = [l.name for l in model.layers]
    has_filters = [bool(hasattr(l, "filters")) for l in model.layers]
    idx = ctx.driver.call({"op": "gradcam_layer", "names": names, "has_filters": has_filters, "ref": ref})
    if idx is None:
        raise RuntimeError("generator produced an invalid layer reference")
    layer = model.layers[int(idx)]
    snap0 = _snapshot(model, x)
    ol = d.get("output_layer")                       # None, -2 or "out": explain the logits before the softmax
    head = model.get_layer("out").output if ol is not None else model.output
    two = tf.keras.Model(model.input, [layer.output, head])
    xt = tf.constant(x)
    with tf.GradientTape() as tape:
        A_t, P = two(xt)
        score = tf.reduce_sum(P * y, axis=-1)
    G_t = tape.gradient(score, A_t)
    A4, G4 = A_t.numpy(), G_t.numpy()
    hp, wp, K = A4.shape[1:]
    A = A4.reshape(n, hp * wp, K)
    G = G4.reshape(n, hp * wp, K)
    samples = [{"A": enc(A[i]), "G": enc(G[i])} for i in range(n)]
    eps32 = np.float32(GradCAMPP.EPSILON)
    ctx.count("cam_layer_ref", "default" if ref is None else ("name" if isinstance(ref, str) else
                                                              ("neg-index" if ref < 0 else "index")))
    ctx.count("cam_fmap", f"{hp}x{wp}" if hp * wp <= 6 else "larger")
    ctx.count("cam_bs", "none" if bs is None else ("lt" if bs < n else "ge"))
    ctx.count("cam_resize", "identity" if (hp, wp) == (H, W) else "upsample")
    ctx.count("cam_output_layer", "none" if ol is None else str(ol))
    nontrivial = False
    for mname, cls in (("gradcam", GradCAM), ("gradcampp", GradCAMPP)):
        dd = dict(d, method=mname)

        def impl():
            kw = {} if ol is None else {"output_layer": ol}
            expl = cls(model, batch_size=bs, conv_layer=ref, **kw)
            return expl, expl(x, y).numpy()
        ok, r = ctx.impl_call(dd, impl)
        if not ok:
            continue
        expl, out = r
        ctx.check_prop("chosen-layer", expl.conv_layer is layer, dd,
                       {"xplique": expl.conv_layer.name, "expected": layer.name, "ref": ref})
        ctx.check_prop("user-model-untouched", _snapshot(model, x) == snap0, dd)
        ctx.check_prop("shape", tuple(out.shape) == (n, H, W, 1), dd, {"got": list(out.shape)})
        ctx.check_prop("dtype", str(out.dtype) == "float32", dd)
        if mname == "gradcampp" and _pp_illconditioned(A, G):
            ctx.count("cam_pp_illconditioned_skipped")
            continue
        lm = ctx.driver.call({"op": "gradcam", "method": mname, "eps": enc(eps32), "K": int(K), "bs": bs,
                              "samples": samples})
        wts = np.array([[float(v) for v in row] for row in lm["weights"]], dtype=np.float64)
        scale = max(1.0, float(np.abs(A).max()) * float(np.abs(wts).max()) * K)
        # the anchored static methods, one by one
        ok, w_impl = ctx.impl_call(dd, lambda: cls._compute_weights(tf.constant(G4), tf.constant(A4)).numpy())
        if ok:
            ctx.check_corr(f"{mname}_compute_weights", w_impl.reshape(-1), lm["weights"], dd, rtol=1e-4,
                           scale=max(1.0, float(np.abs(wts).max())))
        ok, cam_static = ctx.impl_call(dd, lambda: GradCAM._apply_weights(
            tf.constant(wts.reshape(n, 1, 1, K).astype("float32")), tf.constant(A4)).numpy())
        if ok:
            ctx.check_corr("gradcam_apply_weights", cam_static.reshape(-1), lm["impl"], dd, rtol=1e-4, scale=scale)

        def resized(cams):
            arr = np.array([[float(v) for v in row] for row in cams], dtype=np.float32).reshape(n, hp, wp, 1)
            return np.stack([tf.image.resize(arr[i], (H, W), method=tf.image.ResizeMethod.BICUBIC).numpy()
                             for i in range(n)])
        if tuple(out.shape) == (n, H, W, 1):
            ctx.check_corr(f"{mname}_impl_model", out, [Fraction(float(v)) for v in resized(lm["impl"]).reshape(-1)],
                           dd, rtol=1e-4, scale=scale)
            ctx.check_pred(f"{mname}-formula", out, [Fraction(float(v)) for v in resized(lm["spec"]).reshape(-1)],
                           dd, rtol=1e-4, scale=scale)
            # before the resize the map is non-negative: the smallest pre-image value is >= 0
            ctx.check_prop("map-nonnegative", all(v >= 0 for row in lm["impl"] for v in row), dd)
            if len(set(np.round(out.reshape(-1), 5).tolist())) > 1:
                nontrivial = True
    ctx.case(d, nontrivial)


def gen_cam_cases(ctx):
    rng = ctx.rng
    thorough = ctx.tier == "thorough"
    ncases = (500 if thorough else 60) * ctx.budget_scale
    cases = []
    for _ in range(ncases):
        H, W = int(rng.integers(3, 8 if not thorough else 11)), int(rng.integers(3, 8 if not thorough else 11))
        if H == W:
            W += 1
        C = [1, 2, 3][int(rng.integers(3))]
        nconv = int(rng.integers(1, 4))
        convs = []
        ch, cw = H, W
        for i in range(nconv):
            pad = "valid" if rng.random() < 0.6 else "same"
            kh, kw = int(rng.integers(1, min(ch, 3) + 1)), int(rng.integers(1, min(cw, 3) + 1))
            sh, sw = (1, 1) if rng.random() < 0.6 else (int(rng.integers(1, 3)), int(rng.integers(1, 3)))
            nh, nw = ((ch - kh) // sh + 1, (cw - kw) // sw + 1) if pad == "valid" else (-(-ch // sh), -(-cw // sw))
            if nh < 1 or nw < 1:
                break
            act = ["relu", "linear"][int(rng.integers(2))]
            post = "relu" if (act == "linear" and rng.random() < 0.4) else "none"
            convs.append([int(rng.integers(1, 4)), kh, kw, sh, sw, pad, act, post])
            ch, cw = nh, nw
        if not convs:
            convs = [[2, 1, 1, 1, 1, "valid", "relu", "none"]]
        d = {"part": "cam", "in_shape": [H, W, C], "convs": convs, "head": ["flat", "gap"][int(rng.integers(2))],
             "hidden": [0, 3][int(rng.integers(2))], "nc": int(rng.integers(1, 4)), "N": int(rng.integers(1, 5)),
             "bs": [None, 1, 2, 3, 32][int(rng.integers(5))], "case_seed": int(rng.integers(1 << 31))}
        # layer names in model.layers order: inp, c0, [r0], c1, ...
        names = ["inp"]
        for i, s in enumerate(convs):
            names.append(f"c{i}")
            if s[7] == "relu":
                names.append(f"r{i}")
        if rng.random() < 0.4:
            d["output_layer"] = [-2, "out"][int(rng.integers(2))]     # explain the logits before a softmax layer
        nlayers = len(names) + 2 + (1 if d["hidden"] else 0) + (1 if d.get("output_layer") is not None else 0)
        cands = [i for i, nm in enumerate(names) if nm != "inp"]
        r = rng.random()
        if d.get("output_layer") is not None and rng.random() < 0.5:
            r = 0.9                                                    # negative index: resolved on the FULL model
        if r < 0.3:
            d["layer_ref"] = None
        else:
            i = cands[int(rng.integers(len(cands)))]
            if r < 0.55:
                d["layer_ref"] = names[i]
            elif r < 0.8:
                d["layer_ref"] = i
            else:
                d["layer_ref"] = i - nlayers
        cases.append(d)
    return cases


# --------------------------------------------------------------------------------------
def corpus_cases():
    p = os.path.join(VERIF, "corpus", "C10")
    out = []
    if os.path.isdir(p):
        for fn in sorted(os.listdir(p)):
            if fn.endswith(".json"):
                out.append(json.load(open(os.path.join(p, fn))))
    return out


def run_case(ctx, d):
    d = {k: v for k, v in d.items() if k not in ("rule", "method")}
    if d["part"] == "relu":
        run_relu_case(ctx, d)
    else:
        run_cam_case(ctx, d)


def run(ctx):
    for d in corpus_cases() + gen_relu_cases(ctx) + gen_cam_cases(ctx):
        run_case(ctx, d)


def replay(ctx, r):
    run_case(ctx, r["case"] if "case" in r else r["first_disagreement"][0])
