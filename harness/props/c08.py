"""C08 - Sobol / HSIC designs and estimators compute the published sensitivity indices.

Lanes (all seeded from ctx.rng; every case is reproducible from its descriptor):
  est     the REAL estimator `__call__` code runs on exact rationals (object arrays of a Fraction
          subclass, post_process overridden to skip the float32 cast) and is compared exactly with
          the Lean model `Sobol.estimate` (generated slice bounds) and with the reference formulas
  estf    the unmodified estimator classes on float arrays (shape / dtype / values, Glen-Isaacs with
          the harness' sqrt)                                                   - tolerance lane
  design  the four replicated samplers and `build_replicated_design` cell by cell vs Lean
          `Sobol.design` / `specDesign`; plain samplers: range, binary
  hsic    HSIC estimators (binary / rbf / sobolev input kernels, estimator batch sizes) vs Lean
          `Hsic.hsicImpl` given the implementation's own output Gram matrix    - tolerance lane
  gsa     SobolAttributionMethod / HsicAttributionMethod on recording polynomial models: recorded
          queries vs Lean perturbed inputs, returned map vs TF-bicubic-resize of the Lean map
"""
import json
import operator
import os
from fractions import Fraction

import numpy as np

from common import PolyModel, enc, fr, VERIF, DriverErr

RULE = ("cases are drawn from a seeded generator over five lanes: est (estimator kind x n in 1..16 x d in 1..6 x "
        "variant random/constA/inert, rational outputs with small denominators, real __call__ code on exact "
        "rationals); estf (float arrays incl. Glen); design (4 replicated samplers + raw build_replicated_design on "
        "distinct integers + 4 plain samplers, binary or not); hsic (3 input kernels x samplers x n x grid x "
        "estimator batch size, random outputs); gsa (Sobol/HSIC explainers x 3 perturbation functions x grid x "
        "non-square images x batch sizes on random integer polynomial scores). distinct = distinct descriptor "
        "hash; non-trivial = compared output not constant / estimator defined on at least one dimension")

EST_KINDS = ["jansen", "homma", "janon", "saltelli"]


# --------------------------------------------------------------------------------------
# exact rationals that survive the arithmetic of sobol_estimators.py
# --------------------------------------------------------------------------------------
class QF(Fraction):
    """Fraction closed under the arithmetic used by the estimators: float operands are taken
    exactly (Fraction(float)), float exponents such as 2.0 are integer powers."""
    def __new__(cls, a=0, b=None):
        if b is None and isinstance(a, (float, np.floating)):
            return super().__new__(cls, Fraction(float(a)))
        return super().__new__(cls, a, b)


def _lift(x):
    if isinstance(x, Fraction):
        return Fraction(x)
    if isinstance(x, (float, np.floating)):
        return Fraction(float(x))
    if isinstance(x, (int, np.integer)):
        return Fraction(int(x))
    return NotImplemented


def _install():
    for name, op in [("add", operator.add), ("sub", operator.sub), ("mul", operator.mul),
                     ("truediv", operator.truediv)]:
        def fwd(a, b, op=op):
            b = _lift(b)
            if b is NotImplemented:
                return NotImplemented
            return QF(op(Fraction(a), b))

        def rev(a, b, op=op):
            b = _lift(b)
            if b is NotImplemented:
                return NotImplemented
            return QF(op(b, Fraction(a)))
        setattr(QF, f"__{name}__", fwd)
        setattr(QF, f"__r{name}__", rev)

    def _pow(a, e):
        if isinstance(e, (float, np.floating)) and float(e).is_integer():
            e = int(e)
        if isinstance(e, (int, np.integer)):
            return QF(Fraction.__pow__(Fraction(a), int(e)))
        raise TypeError("non-integer exponent on exact rationals")
    QF.__pow__ = _pow
    QF.__neg__ = lambda a: QF(-Fraction(a))


_install()


def _estimators():
    from xplique.attributions.global_sensitivity_analysis import (
        JansenEstimator, HommaEstimator, JanonEstimator, GlenEstimator, SaltelliEstimator)
    return {"jansen": JansenEstimator, "homma": HommaEstimator, "janon": JanonEstimator,
            "saltelli": SaltelliEstimator, "glen": GlenEstimator}


_EXACT = {}


def exact_estimator(kind):
    """the real estimator class with only `post_process` (float32 cast + reshape) overridden"""
    if kind not in _EXACT:
        base = _estimators()[kind]

        class Exact(base):
            @staticmethod
            def post_process(stis, masks):
                return list(stis)
        _EXACT[kind] = Exact
    return _EXACT[kind]()


def run_exact(kind, ys, n, d):
    """-> list of Fractions, or None when the code divides by zero"""
    masks = np.zeros((n * (d + 2), d))
    arr = np.empty(len(ys), dtype=object)
    for i, v in enumerate(ys):
        arr[i] = QF(v)
    try:
        return [Fraction(v) for v in exact_estimator(kind)(masks, arr, n)]
    except ZeroDivisionError:
        return None


def is_pow2(n):
    return n >= 1 and n & (n - 1) == 0


def exact_or_tol(ctx, name, impl, model, desc, strict, pred=False):
    """impl: list of Fractions, model: list of Fraction|None.  Exact equality first; when the case
    is not `strict` (a float constant of the source such as 1./3 is not a dyadic rational) fall back
    to the tolerance comparison."""
    same = len(impl) == len(model) and all(m is not None and a == m for a, m in zip(impl, model))
    if same:
        ctx.lanes["exact"] += 1
        return True
    if not strict and len(impl) == len(model) and all(m is not None for m in model):
        fi = [float(a) for a in impl]
        if pred:
            return ctx.check_pred(name, fi, model, desc, rtol=1e-9, atol=1e-12)
        return ctx.check_corr(name, fi, model, desc, rtol=1e-9, atol=1e-12)
    detail = {"impl": [str(a) for a in impl][:12], "model": [str(m) for m in model][:12], "strict": strict}
    if pred:
        ctx.check_prop(name, False, desc, detail)
    else:
        ctx.corr_failures.append((name, desc, detail))
    return False


def gen_outputs(rng, n, d, variant):
    den = int(rng.choice([1, 2, 3, 4, 7, 8]))
    ys = [Fraction(int(v), den) for v in rng.integers(-12, 13, size=n * (d + 2))]
    inert = []
    if variant == "constA":
        c = ys[0]
        for a in range(n):
            ys[a] = c
    if variant == "inert":
        k = int(rng.integers(1, d + 1))
        inert = sorted(int(i) for i in rng.choice(d, size=k, replace=False))
        for i in inert:
            for a in range(n):
                ys[2 * n + i * n + a] = ys[a]
    return ys, inert


def case_est(ctx, dsc):
    rng = np.random.default_rng(dsc["case_seed"])
    kind, n, d = dsc["kind"], dsc["n"], dsc["d"]
    ys, inert = gen_outputs(rng, n, d, dsc["variant"])
    ok, impl = ctx.impl_call(dsc, lambda: run_exact(kind, ys, n, d))
    if not ok:
        ctx.case(dsc, False)
        return
    r = ctx.driver.call({"op": "sobol_est", "kind": kind, "ys": enc(ys), "n": n, "d": d})
    model, spec = r["impl"], r["spec"]
    strict = kind == "jansen" or (is_pow2(n) and kind in ("homma", "saltelli")) or (kind == "janon" and n == 2)
    ctx.count("est_kind", kind)
    ctx.count("est_n", n)
    ctx.count("est_variant", dsc["variant"])
    if impl is None:
        # ZeroDivisionError of the whole call <-> the model is undefined on some dimension
        ctx.count("est_defined", "zero-division")
        ctx.case(dsc, False)
        if any(m is None for m in model):
            ctx.lanes["exact"] += 1
        else:
            ctx.corr_failures.append(("sobol_est_undefined", dsc, {"model": [str(m) for m in model]}))
        ctx.check_prop("published-formula", any(s is None for s in spec), dsc,
                       {"impl": "ZeroDivisionError", "spec": [str(s) for s in spec]})
        return
    ctx.count("est_defined", "defined")
    ctx.case(dsc, len(set(impl)) > 1 or d == 1)
    exact_or_tol(ctx, "sobol_est_impl_model", impl, model, dsc, strict)
    exact_or_tol(ctx, "published-formula", impl, spec, dsc, strict, pred=True)
    a = Fraction(int(rng.choice([-3, -2, -1, 2, 3, 5])), int(rng.choice([1, 2, 3])))
    b = Fraction(int(rng.integers(-9, 10)), 2)
    if kind == "jansen":
        ctx.check_prop("jansen-nonneg", all(v >= 0 for v in impl), dsc, {"impl": [str(v) for v in impl]})
        ctx.check_prop("jansen-zero-inert", all(impl[i] == 0 for i in inert), dsc,
                       {"inert": inert, "impl": [str(v) for v in impl]})
        ok2, impl2 = ctx.impl_call(dsc, lambda: run_exact(kind, [a * y + b for y in ys], n, d))
        if ok2:
            ctx.check_prop("jansen-affine", impl2 == impl, dsc,
                           {"alpha": str(a), "beta": str(b), "impl": [str(v) for v in impl],
                            "impl_affine": None if impl2 is None else [str(v) for v in impl2]})
    else:
        ok2, impl2 = ctx.impl_call(dsc, lambda: run_exact(kind, [a * y for y in ys], n, d))
        if ok2:
            ctx.check_prop("others-scale", impl2 == impl, dsc,
                           {"alpha": str(a), "impl": [str(v) for v in impl],
                            "impl_scaled": None if impl2 is None else [str(v) for v in impl2]})


def case_estf(ctx, dsc):
    """unmodified classes on float arrays: shape, dtype, values (tolerance lane); Glen-Isaacs"""
    rng = np.random.default_rng(dsc["case_seed"])
    kind, n, g = dsc["kind"], dsc["n"], dsc["g"]
    d = g * g
    masks = np.zeros((n * (d + 2), g, g, 1), np.float32)
    ys = (rng.integers(-64, 65, size=n * (d + 2)) / 8.0).astype(np.float32)
    est = _estimators()[kind]()
    ok, out = ctx.impl_call(dsc, lambda: est(masks, ys.astype(np.float64) if kind == "glen" else ys, n))
    if not ok:
        ctx.case(dsc, False)
        return
    ctx.count("estf_kind", kind)
    ctx.check_prop("estimator-shape", tuple(out.shape) == (g, g, 1), dsc, {"shape": list(out.shape)})
    ctx.check_prop("estimator-dtype", str(out.dtype) == "float32", dsc, {"dtype": str(out.dtype)})
    ysf = [fr(v) for v in ys]
    if kind == "glen":
        r0 = ctx.driver.call({"op": "sobol_glen", "ys": enc(ysf), "n": n, "d": d})
        rad = r0["radicands"]
        if any(v is None or v <= 0 for v in rad):
            ctx.case(dsc, False)
            return
        roots = [Fraction(float(np.sqrt(float(v)))) for v in rad]
        r = ctx.driver.call({"op": "sobol_glen", "ys": enc(ysf), "n": n, "d": d, "roots": enc(roots)})
    else:
        r = ctx.driver.call({"op": "sobol_est", "kind": kind, "ys": enc(ysf), "n": n, "d": d})
    if any(v is None for v in r["impl"]):
        ctx.case(dsc, False)
        ctx.check_prop("published-formula", not np.all(np.isfinite(out)), dsc, {"impl": out.reshape(-1).tolist()})
        return
    ctx.case(dsc, True)
    flat = out.reshape(-1)
    ctx.check_corr("sobol_estf_impl_model", flat, r["impl"], dsc, rtol=2e-4, atol=2e-5)
    ctx.check_pred("published-formula", flat, r["spec"], dsc, rtol=2e-4, atol=2e-5)


# --------------------------------------------------------------------------------------
# designs
# --------------------------------------------------------------------------------------
def _rs_samplers():
    from xplique.attributions.global_sensitivity_analysis import (
        TFSobolSequenceRS, ScipySobolSequenceRS, HaltonSequenceRS, LatinHypercubeRS)
    return {"tfsobol": TFSobolSequenceRS, "scipysobol": ScipySobolSequenceRS, "halton": HaltonSequenceRS,
            "lhs": LatinHypercubeRS}


def _samplers():
    from xplique.attributions.global_sensitivity_analysis import (
        TFSobolSequence, ScipySobolSequence, HaltonSequence, LatinHypercube)
    return {"tfsobol": TFSobolSequence, "scipysobol": ScipySobolSequence, "halton": HaltonSequence,
            "lhs": LatinHypercube}


def case_design(ctx, dsc):
    n, d, name = dsc["n"], dsc["d"], dsc["sampler"]
    rng = np.random.default_rng(dsc["case_seed"])
    ctx.count("design_sampler", name)
    if name == "raw":
        from xplique.attributions.global_sensitivity_analysis.replicated_designs import ReplicatedSampler
        if dsc.get("binary"):
            a = rng.integers(0, 2, size=(n, d)).astype(np.float32)
            b = rng.integers(0, 2, size=(n, d)).astype(np.float32)
        else:
            a = np.arange(n * d, dtype=np.float32).reshape(n, d) / 1024.0
            b = (512 + np.arange(n * d, dtype=np.float32).reshape(n, d)) / 1024.0
        a0, b0 = a.copy(), b.copy()
        ok, c = ctx.impl_call(dsc, lambda: ReplicatedSampler.build_replicated_design(a, b))
        if not ok:
            ctx.case(dsc, False)
            return
        ctx.check_prop("design-inputs-untouched", np.array_equal(a, a0) and np.array_equal(b, b0), dsc)
        full = np.concatenate([a, b, c], 0)
    else:
        ok, full = ctx.impl_call(dsc, lambda: _rs_samplers()[name]()(d, n))
        if not ok:
            ctx.case(dsc, False)
            return
    shape_ok = full.ndim == 2 and tuple(full.shape) == (n * (d + 2), d)
    ctx.check_prop("design-shape", shape_ok, dsc, {"shape": list(full.shape), "want": [n * (d + 2), d]})
    if not shape_ok:
        ctx.case(dsc, False)
        return
    a, b = full[:n], full[n:2 * n]
    r = ctx.driver.call({"op": "sobol_design", "A": enc(a), "B": enc(b), "d": d})
    ctx.case(dsc, len(set(full.reshape(-1).tolist())) > 2 or bool(dsc.get("binary")))
    ctx.check_corr("design_impl_model", full, r["impl"], dsc, rtol=0, atol=0)
    ctx.check_pred("replicated-structure", full, r["spec"], dsc, rtol=0, atol=0)
    ctx.check_prop("design-range", bool(np.all(full >= 0) and np.all(full <= 1)), dsc,
                   {"min": float(full.min()), "max": float(full.max())})
    if dsc.get("binary"):
        ctx.check_prop("design-binary", bool(np.all((full == 0) | (full == 1))), dsc)


def case_sampler(ctx, dsc):
    n, d, name, binary = dsc["n"], dsc["d"], dsc["sampler"], dsc["binary"]
    ok, pts = ctx.impl_call(dsc, lambda: _samplers()[name](binary=binary)(d, n))
    if not ok:
        ctx.case(dsc, False)
        return
    ctx.case(dsc, True)
    ctx.count("plain_sampler", f"{name}{'-bin' if binary else ''}")
    ctx.check_prop("sampler-shape", tuple(pts.shape) == (n, d), dsc, {"shape": list(pts.shape)})
    ctx.check_prop("design-range", bool(np.all(pts >= 0) and np.all(pts <= 1)), dsc,
                   {"min": float(pts.min()), "max": float(pts.max())})
    if binary:
        ctx.check_prop("design-binary", bool(np.all((pts == 0) | (pts == 1))), dsc)
    # other instances of the same sampler class, created with the OTHER flag for the same (d, n) in the same process,
    # must not change what an instance returns (added after a seeded class-level cache was missed)
    isbin = lambda a: bool(np.all((a == 0) | (a == 1)))  # noqa: E731
    ok, r = ctx.impl_call(dsc, lambda: (_samplers()[name](binary=not binary)(d, n), _samplers()[name](binary=binary)(d, n)),
                          signature="sampler-other-flag")
    if ok:
        other, again = r
        ctx.check_prop("design-range", bool(np.all(other >= 0) and np.all(other <= 1) and np.all(again >= 0) and np.all(again <= 1)), dsc)
        if binary:
            ctx.check_prop("design-binary", isbin(again), dsc, {"what": "binary sampler after a continuous one of the same size"})
        else:
            ctx.check_prop("design-binary", isbin(other), dsc, {"what": "binary sampler after a continuous one of the same size"})
            if not isbin(pts):
                ctx.check_prop("design-continuous-kept", not isbin(again), dsc,
                               {"what": "continuous sampler returns binarised points after a binary one of the same size"})


# --------------------------------------------------------------------------------------
# HSIC estimators
# --------------------------------------------------------------------------------------
def _hsic_estimators():
    from xplique.attributions.global_sensitivity_analysis import BinaryEstimator, RbfEstimator, SobolevEstimator
    return {"binary": BinaryEstimator, "rbf": RbfEstimator, "sobolev": SobolevEstimator}


def kappa_table(masks2d, ctx=None, dsc=None):
    """rbf input kernel values for every difference of two values of one mask cell (keyed by the exact difference): the
    documented Gaussian profile exp(-(x-y)^2 / (2 * 0.5^2)) computed HERE; the implementation's kernels.rbf is compared
    with it (predicate), never used as its own oracle"""
    import tensorflow as tf
    from xplique.attributions.global_sensitivity_analysis.kernels import Kernel
    diffs = {}
    for p in range(masks2d.shape[1]):
        col = masks2d[:, p]
        for x in set(col.tolist()):
            for y in set(col.tolist()):
                diffs[fr(np.float32(x)) - fr(np.float32(y))] = (np.float32(x), np.float32(y))
    keys = list(diffs)
    xs = tf.constant([diffs[k][0] for k in keys], tf.float32)
    ys = tf.constant([diffs[k][1] for k in keys], tf.float32)
    impl_vals = Kernel.from_string("rbf")(xs, ys, width=0.5).numpy()
    dif = np.array([float(k) for k in keys], dtype=np.float64)
    vals = np.exp(-(dif ** 2) / (2 * 0.5 ** 2)).astype(np.float32)
    if ctx is not None:
        ctx.check_pred("rbf-kernel-is-documented-gaussian", impl_vals, [fr(v) for v in vals], dsc or {}, rtol=2e-6, atol=1e-30)
    return [[enc(k), enc(v)] for k, v in zip(keys, vals)]


def hsic_model(ctx, est, kernel, g, n, ebs, masks, outputs, spec=False):
    """Lean `hsicImpl` on the exact masks and the implementation's own output Gram matrix"""
    import tensorflow as tf
    y = tf.reshape(tf.cast(outputs, tf.float32), (n, 1))
    gram = est.output_kernel_func(y, tf.transpose(y)).numpy()
    if not np.all(np.isfinite(gram)):
        # median of the scores exactly 0 -> rbf width 0 -> 0/0: the estimator is undefined (NaN)
        return None, gram
    # output Gram matrix: documented rbf of the scores with width = median(scores), computed HERE; the implementation's
    # output_kernel_func is compared with it and the reference is what the model receives
    y64 = np.asarray(outputs, dtype=np.float32).astype(np.float64).reshape(n)
    wy = float(np.float32(np.percentile(np.asarray(outputs, dtype=np.float32), 50.0)))
    gram_ref = np.exp(-((y64[:, None] - y64[None, :]) ** 2) / (2 * wy * wy)).astype(np.float32)
    ctx.check_pred("output-gram-is-rbf-with-median-width", gram, [[fr(v) for v in row] for row in gram_ref], {"n": n, "g": g, "kernel": kernel},
                   rtol=1e-4, atol=1e-12)      # the float32 exponent carries a relative error of |arg| * 2^-23
    gram = gram_ref
    m2 = masks.reshape(n, g * g)
    op = {"op": "hsic", "kernel": kernel, "g": g, "n": n, "bsz": ebs if ebs is not None else 100000,
          "masks": enc(m2), "L": enc(gram), "spec": bool(spec)}
    if kernel == "rbf":
        op["kappa"] = kappa_table(m2, ctx, {"n": n, "g": g, "kernel": kernel})
    return ctx.driver.call(op), gram


def case_hsic(ctx, dsc):
    rng = np.random.default_rng(dsc["case_seed"])
    kernel, g, n, ebs = dsc["kernel"], dsc["g"], dsc["n"], dsc["ebs"]
    d = g * g
    binary = kernel == "binary"
    if dsc["sampler"] == "random":
        pts = rng.integers(0, 2, size=(n, d)).astype(np.float32) if binary else \
            (rng.integers(0, 17, size=(n, d)) / 16.0).astype(np.float32)
    else:
        pts = _samplers()[dsc["sampler"]](binary=binary)(d, n)
    masks = pts.reshape((-1, g, g, 1))
    outputs = (rng.integers(-40, 41, size=n) / 8.0).astype(np.float32)
    if len(set(outputs.tolist())) < 2:
        outputs[0] += 1.0
    if abs(float(np.percentile(outputs, 50.0))) < 1e-6:      # rbf width 0 -> 0/0, outside the property
        outputs = outputs + np.float32(0.5)
    est = _hsic_estimators()[kernel]()
    est.set_batch_size(ebs)
    ok, out = ctx.impl_call(dsc, lambda: est(masks, outputs, n))
    if not ok:
        ctx.case(dsc, False)
        return
    ctx.count("hsic_kernel", kernel)
    ctx.count("hsic_ebs", "none" if ebs is None else ("lt" if ebs < d else "ge"))
    ctx.check_prop("estimator-shape", tuple(out.shape) == (g, g, 1), dsc, {"shape": list(out.shape)})
    ctx.check_prop("estimator-dtype", str(out.dtype) == "float32", dsc, {"dtype": str(out.dtype)})
    r, gram = hsic_model(ctx, est, kernel, g, n, ebs, masks, outputs, spec=(n <= 8))
    if r is None:
        ctx.count("hsic_undefined")
        ctx.case(dsc, False)
        return
    flat = out.reshape(-1)
    scale = max(1.0, float(np.max(np.abs(flat))))
    ctx.case(dsc, len(set(np.round(flat, 6).tolist())) > 1 or d == 1)
    ctx.check_corr("hsic_impl_model", flat, r["impl"], dsc, rtol=5e-4, atol=2e-5, scale=scale)
    if "spec" in r:
        ctx.check_pred("hsic-cell-alignment", flat, r["spec"], dsc, rtol=5e-4, atol=2e-5, scale=scale)
    # hypothesis of hsic_nonneg_*: the output Gram matrix is PSD (re-validated numerically)
    ev = float(np.linalg.eigvalsh(gram.astype(np.float64)).min())
    ctx.count("hsic_L_psd", "ok" if ev > -1e-5 else "violated")
    if ev > -1e-5:
        ctx.check_prop("hsic-nonneg", bool(np.all(flat >= -2e-5 * scale)), dsc, {"min": float(flat.min())})
    # permutation of the grid cells
    perm = rng.permutation(d)
    masks_p = masks.reshape(n, d)[:, perm].reshape((-1, g, g, 1))
    ok2, out_p = ctx.impl_call(dsc, lambda: est(masks_p, outputs, n))
    if ok2:
        dev = float(np.max(np.abs(out_p.reshape(-1) - flat[perm])))
        ctx.check_prop("hsic-perm", dev <= 1e-5 * scale, dsc, {"maxdev": dev, "perm": perm.tolist()})
    # estimator batch size
    est2 = _hsic_estimators()[kernel]()
    est2.set_batch_size(None)
    ok3, out_n = ctx.impl_call(dsc, lambda: est2(masks, outputs, n))
    if ok3:
        dev = float(np.max(np.abs(out_n.reshape(-1) - flat)))
        ctx.check_prop("hsic-estimator-batch-indep", dev <= 1e-5 * scale, dsc, {"maxdev": dev})


# --------------------------------------------------------------------------------------
# attribution methods
# --------------------------------------------------------------------------------------
_NEAREST_OK = {}


def nearest_formula_ok(g, h, w):
    """TF's float32 nearest-neighbour index can differ from floor((i+1/2)*g/H) at exact cell
    boundaries (trusted-base item); such geometries are skipped, never reported."""
    key = (g, h, w)
    if key not in _NEAREST_OK:
        import tensorflow as tf
        ramp = np.arange(g * g, dtype=np.float32).reshape(1, g, g, 1)
        up = tf.image.resize(ramp, (h, w), method="nearest").numpy()[0, :, :, 0]
        want = np.array([[min(((2 * r + 1) * g) // (2 * h), g - 1) * g + min(((2 * c + 1) * g) // (2 * w), g - 1)
                          for c in range(w)] for r in range(h)], dtype=np.float32)
        _NEAREST_OK[key] = bool(np.array_equal(up, want))
    return _NEAREST_OK[key]


def case_gsa(ctx, dsc):
    import cv2
    import tensorflow as tf
    from xplique.attributions import SobolAttributionMethod, HsicAttributionMethod
    rng = np.random.default_rng(dsc["case_seed"])
    g, h, w, c, n, bs = dsc["g"], dsc["h"], dsc["w"], dsc["c"], dsc["n"], dsc["bs"]
    pert, method, N = dsc["pert"], dsc["method"], dsc["N"]
    if not nearest_formula_ok(g, h, w):
        ctx.count("gsa_skipped_resize_boundary")
        return
    shape = (h, w, c)
    nflat = h * w * c
    model = PolyModel(rng, nflat, nc=2, quad=3, cub=0)
    model.record = True
    x = rng.integers(-2, 3, size=(N,) + shape).astype(np.float32)
    y = rng.integers(-2, 3, size=(N, 2)).astype(np.float32)
    for i in range(N):
        if not y[i].any():
            y[i, 0] = 1.0
    if method == "sobol":
        est_kind = dsc["est"]
        sampler = _rs_samplers()[dsc["sampler"]]()
        est = _estimators()[est_kind]()

        def build():
            return SobolAttributionMethod(model, grid_size=g, nb_design=n, sampler=sampler, estimator=est,
                                          perturbation_function=pert, batch_size=bs)
    else:
        kernel = dsc["est"]
        sampler = _samplers()[dsc["sampler"]](binary=(kernel == "binary"))
        est = _hsic_estimators()[kernel]()

        def build():
            return HsicAttributionMethod(model, grid_size=g, nb_design=n, sampler=sampler, estimator=est,
                                         perturbation_function=pert, batch_size=bs,
                                         estimator_batch_size=dsc.get("ebs"))
    ok, expl = ctx.impl_call(dsc, build)
    if not ok:
        ctx.case(dsc, False)
        return
    masks = np.array(expl.masks)
    nmask = masks.shape[0]
    ok, out = ctx.impl_call(dsc, lambda: expl(x, y).numpy())
    if not ok:
        ctx.case(dsc, False)
        return
    ctx.count("gsa_method", f"{method}-{dsc['est']}")
    ctx.count("gsa_pert", pert)
    ctx.count("gsa_bs", "none" if bs is None else ("lt" if bs < nmask else "ge"))
    ctx.check_prop("map-shape", tuple(out.shape) == (N, h, w, 1), dsc, {"shape": list(out.shape)})
    ctx.check_prop("calls-le-batch-size", max(model.calls) <= (bs if bs is not None else nmask), dsc,
                   {"max_call": max(model.calls), "bs": bs})
    queries = np.concatenate(model.queries, 0)
    ctx.check_prop("one-query-per-mask", queries.shape[0] == N * nmask, dsc,
                   {"queries": int(queries.shape[0]), "masks": int(nmask), "N": N})
    if queries.shape[0] != N * nmask or tuple(out.shape) != (N, h, w, 1):
        ctx.case(dsc, False)
        return
    m2 = masks.reshape(nmask, g * g)
    nontrivial = False
    for i in range(N):
        op = {"op": "gsa", "g": g, "h": h, "w": w, "c": c, "x": enc(x[i].reshape(-1)), "y": enc(y[i]),
              "masks": enc(m2), "polys": model.json(), "bs": bs, "perturbation": pert, "queries": True}
        if pert == "blurring":
            x0 = cv2.blur(np.array(x[i], copy=True), (10, 10))
            if x0.ndim == 2:
                x0 = x0[:, :, None]
            op["x0"] = enc(x0.astype(np.float32).reshape(-1))
        if pert == "amplitude":
            op["sigma"] = 1
        if method == "sobol" and dsc["est"] != "glen":
            op["est"] = dsc["est"]
            op["n"] = n
        r = ctx.driver.call(op)
        # (1) the inputs sent to the model are the input perturbed by the explainer's masks
        q_impl = queries[i * nmask:(i + 1) * nmask]
        ctx.check_corr("gsa_queries", q_impl, r["queries"], dsc, rtol=1e-6, atol=1e-6)
        if pert in ("inpainting", "blurring"):     # documented: X*M and X*M + (1-M)*blur(X)
            ctx.check_pred("queries-are-masked-inputs", q_impl, r["queries"], dsc, rtol=1e-6, atol=1e-6)

        # (2) the map is the estimator applied to the scores of those inputs (then bicubic resize)
        def low_map(outs32, full_model=None):
            """low-resolution map of the Lean model for a vector of float32 outputs (None = undefined)"""
            if method == "sobol":
                if dsc["est"] == "glen":
                    ysf = [fr(v) for v in outs32.astype(np.float64)]
                    rad = ctx.driver.call({"op": "sobol_glen", "ys": enc(ysf), "n": n, "d": g * g})["radicands"]
                    if any(v is None or v <= 0 for v in rad):
                        return None
                    roots = [Fraction(float(np.sqrt(float(v)))) for v in rad]
                    low = ctx.driver.call({"op": "sobol_glen", "ys": enc(ysf), "n": n, "d": g * g,
                                           "roots": enc(roots)})["spec"]
                elif full_model is not None:
                    low = full_model
                else:
                    low = ctx.driver.call({"op": "sobol_est", "kind": dsc["est"], "ys": enc([fr(v) for v in outs32]),
                                           "n": n, "d": g * g})["spec"]
            else:
                rr, _ = hsic_model(ctx, est, dsc["est"], g, n, dsc.get("ebs"), masks, outs32)
                low = None if rr is None else rr["impl"]
            if low is None or any(v is None for v in low):
                return None
            return np.array([float(v) for v in low], np.float32).reshape(g, g, 1)

        # scores of the inputs the explainer really evaluated, as the explainer computes them
        scores_rec = (model.outputs(q_impl.astype(np.float64)).astype(np.float32) * y[i][None, :]).sum(-1).astype(np.float32)
        outs_model = np.array([float(v) for v in r["spec_outputs"]], np.float32)
        low_spec = low_map(scores_rec)
        low_impl = low_map(outs_model, full_model=r.get("impl"))
        if low_spec is None or low_impl is None:
            ctx.count("gsa_undefined_map")
            ctx.check_prop("map-is-estimator", low_spec is not None or not np.all(np.isfinite(out[i])), dsc,
                           {"note": "estimator undefined (zero variance / zero kernel width) but the map is finite"})
            continue
        want = tf.image.resize(low_spec, (h, w), method=tf.image.ResizeMethod.BICUBIC).numpy()
        want_impl = tf.image.resize(low_impl, (h, w), method=tf.image.ResizeMethod.BICUBIC).numpy()
        scale = max(1.0, float(np.max(np.abs(want))))
        tol = dict(rtol=2e-3, atol=2e-4, scale=scale)
        ctx.check_corr("gsa_map_impl_model", out[i].reshape(-1), [fr(v) for v in want_impl.reshape(-1)], dsc, **tol)
        ctx.check_pred("map-is-estimator", out[i].reshape(-1), [fr(v) for v in want.reshape(-1)], dsc, **tol)
        nontrivial = nontrivial or len(set(np.round(out[i].reshape(-1), 5).tolist())) > 1
    ctx.case(dsc, nontrivial)


# --------------------------------------------------------------------------------------
# generation
# --------------------------------------------------------------------------------------
def gen_cases(ctx):
    rng = ctx.rng
    thorough = ctx.tier == "thorough"
    k = ctx.budget_scale * (12 if thorough else 1)
    cases = []

    def seed():
        return int(rng.integers(1 << 31))

    # est: every kind x a spread of n, d, variants
    ns = [1, 2, 3, 4, 5, 8, 16]
    for kind in EST_KINDS:
        for _ in range(30 * k):
            n = int(rng.choice(ns, p=[.04, .2, .1, .26, .1, .2, .1]))
            d = int(rng.integers(1, 7))
            variant = str(rng.choice(["random", "random", "random", "inert", "constA"], p=[.3, .2, .2, .22, .08]))
            cases.append({"lane": "est", "kind": kind, "n": n, "d": d, "variant": variant, "case_seed": seed()})
    # estf: float arrays, incl. Glen
    for kind in EST_KINDS + ["glen", "glen"]:
        for _ in range(3 * k):
            cases.append({"lane": "estf", "kind": kind, "n": int(rng.choice([2, 4, 8, 16])),
                          "g": int(rng.integers(1, 4)), "case_seed": seed()})
    # designs
    for name in ["tfsobol", "scipysobol", "halton", "lhs", "raw", "raw"]:
        for j in range(5 * k):
            # every sampler sees design sizes that are not powers of two (3, 6, 12) as well as 1 and powers of two
            n_ = [3, 8, 6, 1, 12][j] if j < 5 else int(rng.choice([1, 2, 3, 4, 5, 6, 7, 8, 12, 16]))
            cases.append({"lane": "design", "sampler": name, "n": n_,
                          "d": int(rng.integers(1, 8)), "binary": bool(name == "raw" and rng.random() < 0.4),
                          "case_seed": seed()})
    for name in ["tfsobol", "scipysobol", "halton", "lhs"]:
        for binary in (False, True):
            for j in range(2 * k):
                cases.append({"lane": "sampler", "sampler": name, "binary": binary,
                              "n": [3, 8][j] if j < 2 else int(rng.choice([1, 3, 4, 5, 6, 8, 12, 16])), "d": int(rng.integers(1, 10))})
    # hsic estimators
    for kernel in ["binary", "rbf", "sobolev"]:
        for _ in range(10 * k):
            g = int(rng.choice([1, 2, 3]))
            cases.append({"lane": "hsic", "kernel": kernel, "g": g, "n": int(rng.choice([3, 4, 6, 8, 12, 16])),
                          "ebs": [None, 1, 2, g * g, 5][int(rng.integers(5))],
                          "sampler": str(rng.choice(["tfsobol", "halton", "lhs", "random"])), "case_seed": seed()})
    # explainers
    perts = ["inpainting", "blurring", "amplitude"]
    for _ in range(28 * k):
        g = int(rng.choice([2, 3]))
        h, w = g * int(rng.integers(1, 4)), g * int(rng.integers(1, 4))
        if rng.random() < 0.35:
            h, w = int(rng.integers(g, 9)), int(rng.integers(g, 9))
        if h == w:
            w = w + g
        cases.append({"lane": "gsa", "method": "sobol", "est": str(rng.choice(EST_KINDS + ["glen", "jansen", "jansen"])),
                      "sampler": str(rng.choice(["tfsobol", "scipysobol", "halton", "lhs"])),
                      "g": g, "h": h, "w": w, "c": int(rng.choice([1, 3])), "n": int(rng.choice([2, 4, 8])),
                      "pert": perts[int(rng.integers(3))], "bs": [1, 3, 7, 64, None][int(rng.integers(5))],
                      "N": int(rng.integers(1, 3)), "case_seed": seed()})
    for _ in range(14 * k):
        g = int(rng.choice([2, 3]))
        h, w = g * int(rng.integers(1, 4)), g * int(rng.integers(1, 4))
        if h == w:
            h = h + g
        kernel = str(rng.choice(["binary", "binary", "rbf", "sobolev"]))
        cases.append({"lane": "gsa", "method": "hsic", "est": kernel,
                      "sampler": str(rng.choice(["tfsobol", "halton", "lhs"])),
                      "g": g, "h": h, "w": w, "c": int(rng.choice([1, 2])), "n": int(rng.choice([4, 6, 8, 12])),
                      "pert": perts[int(rng.integers(3))], "bs": [2, 5, 64, None][int(rng.integers(4))],
                      "ebs": [None, 2, g * g][int(rng.integers(3))],
                      "N": int(rng.integers(1, 3)), "case_seed": seed()})
    return cases


LANES = {"est": case_est, "estf": case_estf, "design": case_design, "sampler": case_sampler,
         "hsic": case_hsic, "gsa": case_gsa}


def corpus_cases():
    p = os.path.join(VERIF, "corpus", "C08")
    out = []
    if os.path.isdir(p):
        for fn in sorted(os.listdir(p)):
            if fn.endswith(".json"):
                out.append(json.load(open(os.path.join(p, fn))))
    return out


def run_case(ctx, dsc):
    LANES[dsc["lane"]](ctx, dsc)


def run(ctx):
    for dsc in corpus_cases() + gen_cases(ctx):
        run_case(ctx, dsc)


def extra(ctx):
    return {"model_parameters_and_hypotheses": [
        "square root of Glen-Isaacs: parameter `root` of the model, computed by the harness (float64 sqrt of the exact radicand)",
        "output Gram matrix L of HSIC (rbf kernel of the scores, median width): computed by the implementation's own "
        "output_kernel_func and passed exactly; its positive semi-definiteness is the hypothesis of hsic_nonneg_* and is "
        "re-validated numerically (eigvalsh) on every case",
        "rbf input kernel: radial profile passed as a table computed by the implementation's kernels.rbf",
        "tf.image.resize nearest: index min(floor((i+1/2)*g/H), g-1), checked against TF on a ramp for every geometry; "
        "geometries where float32 disagrees at an exact cell boundary are skipped (counted)",
        "tf.image.resize bicubic of the g x g map and cv2.blur (blurring baseline): applied by the harness to the model's "
        "exact values with the same library call",
        "QMC / LHS generators (tf.math.sobol_sample, scipy.stats.qmc): their outputs A, B are inputs of the design model",
        "float-exact constants of the source on the rational lane: 1./n (n power of two) exact; 1./(n-1.) compared within 1e-9",
    ]}


def replay(ctx, r):
    run_case(ctx, r["case"] if "case" in r else r["first_disagreement"][0])
