"""C17 - counterfactual / semi-factual searches honour class constraints and are nearest.

Implementation: xplique.example_based NaiveCounterFactuals, LabelAwareCounterFactuals (FilterKNN) and
KLEORSimMiss, KLEORGlobalSim (KLEOR search methods) on integer data with arbitrary label assignments.
Model: Lean `TopK.cfImpl` / `TopK.kleorImpl` (batched, stable sort); Spec: Lean `TopK.cfSpec`,
`TopK.nunSpecKey`, `TopK.kleorSpecKeys` (brute force, relative to the NUN the implementation chose).
Shares data / container / distance / projection helpers with props/c16.py.
"""
import numpy as np

from common import enc
from props import c16 as K

RULE = ("cases = (method in naive|labelaware|simmiss|globalsim, N, feature shape, label assignment in "
        "random|one-class|missing-class|rare-class, queries (some on a case; constructed ties at exactly the NUN "
        "distance), k, batch size, container, distance, projection, case_returns) from a seeded generator; quick: "
        "N<=12, thorough: N<=30 plus an exhaustive (N,bs,k)<=5 sweep per method. Each case runs the real "
        "explainer and compares tie-tolerantly with the Lean batched Impl model and with the Lean brute-force "
        "Spec: sorted distance (to query / to NUN) lists equal, number of finite slots = min(k, #admissible), "
        "every finite slot validated individually through the Lean dataset_gather: class constraint, strict "
        "GlobalSim inequality on the exact keys, true distance to query and to NUN, example, label, distinct "
        "rows; unfilled slots carry inf; the NUN is a nearest unlike case. "
        "distinct = descriptor hash; non-trivial = at least two classes among cases or queries and N>=2")

METHODS = ["naive", "labelaware", "simmiss", "globalsim"]
KLEOR_POSS = ["examples", "weights", "distances", "labels", "include_inputs",
              "nuns", "nuns_indices", "dist_to_nuns", "nuns_labels"]
BASE_POSS = ["examples", "distances", "labels", "include_inputs"]


def gen_classes(rng, N, nc, mode):
    if mode == "one":
        return np.full(N, int(rng.integers(nc)))
    if mode == "missing":
        miss = int(rng.integers(nc))
        return np.array([c for c in range(nc) if c != miss])[rng.integers(0, nc - 1, size=N)]
    if mode == "rare":
        cls = rng.integers(1, nc, size=N)
        cls[int(rng.integers(N))] = 0
        return cls
    return rng.integers(0, nc, size=N)


def build(d):
    """data of a case, reproducible from the descriptor"""
    rng = np.random.default_rng(d["case_seed"])
    N, shape, n, nc = d["N"], tuple(d["shape"]), d["n"], d["nc"]
    X, Q, L = K.make_data(rng, N, shape, n, nc, dup=d.get("dup", 0.3), label_kind=d.get("labels") or "scalar", mode=d.get("dmode"))
    cls = gen_classes(rng, N, nc, d["cmode"])
    qcls = rng.integers(0, nc, size=n)
    if d.get("tie_nun") and N >= 3:
        # a same-class case and an unlike case at exactly the same L1 / Linf / L2 distance D of query 0,
        # and a same-class case on the query itself
        D = int(rng.integers(1, 3))
        e0 = np.zeros(shape, dtype=np.float32)
        e0.reshape(-1)[0] = D
        X[0] = Q[0] + e0
        X[1] = Q[0] - e0
        X[2] = Q[0]
        cls[0] = qcls[0]
        cls[1] = (qcls[0] + 1) % nc
        cls[2] = qcls[0]
    T, _ = K.make_targets(rng, N, nc, mode=d.get("tmode", "onehot"), classes=cls)
    QT, _ = K.make_targets(rng, n, nc, mode=d.get("tmode", "onehot"), classes=qcls)
    cfc = rng.integers(0, nc, size=n)
    CF = np.eye(nc, dtype=np.float32)[cfc]
    return X, Q, L, T, QT, CF, cls, qcls, cfc


def run_case(ctx, d):
    from xplique.example_based import (NaiveCounterFactuals, LabelAwareCounterFactuals, KLEORSimMiss,
                                       KLEORGlobalSim)
    meth_name = d["method"]
    N, shape, n, k, bs, cont, nc = d["N"], tuple(d["shape"]), d["n"], d["k"], d["bs"], d["container"], d["nc"]
    nflat = int(np.prod(shape))
    X, Q, L, T, QT, CF, cls, qcls, cfc = build(d)
    use_labels = d.get("labels") is not None
    pd = d["proj"]
    proj, lean_proj = K.build_proj(pd, shape)
    m = pd.get("m", nflat)
    dist_arg, lean_dist, root, exact = K.dist_table(d["dist"], m, three_args=True)
    ret = d["returns"]
    kleor = meth_name in ("simmiss", "globalsim")
    rl = K.returns_list(ret, KLEOR_POSS if kleor else BASE_POSS)
    d["returns_list"] = rl
    kw = K.build_container(cont, X, L if use_labels else None, T, bs)
    kw.setdefault("targets_dataset", None)     # 3-column datasets carry the targets themselves
    klass = {"naive": NaiveCounterFactuals, "labelaware": LabelAwareCounterFactuals,
             "simmiss": KLEORSimMiss, "globalsim": KLEORGlobalSim}[meth_name]

    def impl():
        meth = klass(k=k, projection=proj, case_returns=ret, distance=dist_arg, **kw)
        out = meth(Q, QT, CF) if meth_name == "labelaware" else meth(Q, QT)
        return K.np_out(out), int(meth.batch_size)

    ok, res = ctx.impl_call(d, impl)
    if not ok:
        ctx.case(d, False)
        return
    out, impl_bs = res
    base = {"cases": enc(K.flat2(X, N)), "queries": enc(K.flat2(Q, n)), "proj": lean_proj, "dist": lean_dist,
            "k": k, "bs": bs, "ctargets": enc(T), "qtargets": enc(QT)}
    ctx.count("method", meth_name)
    ctx.count("container", cont)
    ctx.count("distance", d["dist"]["name"])
    ctx.count("projection", pd["kind"])
    ctx.count("class_mode", d["cmode"])
    ctx.count("batching", "none" if bs is None else ("bs>N" if bs > N else "bs==N" if bs == N else
                                                     ("remainder" if N % bs else "divides")))
    nontrivial = N >= 2 and len(set(cls.tolist()) | set(qcls.tolist())) >= 2
    ctx.case({kk: v for kk, v in d.items() if kk != "returns_list"}, nontrivial)
    inc = 1 if "include_inputs" in rl else 0
    Lx = L if use_labels else None

    # ---- returned keys / shapes --------------------------------------------------------
    want = set(x for x in rl if x not in ("include_inputs", "weights"))
    ctx.check_prop("returned-keys", set(out.keys()) == want, d, {"got": sorted(out.keys()), "want": sorted(want)})
    shapes = {"examples": (n, k + inc) + shape, "distances": (n, k), "labels": (n, k) + L.shape[1:],
              "indices": (n, k, 2), "nuns": (n, 1) + shape, "nuns_indices": (n, 1, 2), "dist_to_nuns": (n, k),
              "nuns_labels": (n, 1) + L.shape[1:]}
    for key_, v in out.items():
        if key_ in shapes and tuple(v.shape) != shapes[key_]:
            ctx.check_prop("shape-" + key_, False, d, {"got": list(v.shape), "want": list(shapes[key_])})
            return
    if "include_inputs" in rl and "examples" in out:
        ctx.check_prop("include-inputs-first", np.array_equal(out["examples"][:, 0], Q), d)

    if not kleor:
        run_cf(ctx, d, out, base, impl_bs, X, Lx, QT, CF, cls, qcls, cfc, root, exact)
    else:
        run_kleor(ctx, d, out, base, impl_bs, X, Lx, cls, qcls, root, exact)


def run_cf(ctx, d, out, base, impl_bs, X, L, QT, CF, cls, qcls, cfc, root, exact):
    N, n, k, bs = d["N"], d["n"], d["k"], d["bs"]
    label_aware = d["method"] == "labelaware"
    op = dict(base, op="cf", filter="labelaware" if label_aware else "naive",
              refs=enc(CF if label_aware else QT))
    r = ctx.driver.call(op)
    if K.max_key(r["keys"]) >= K.BIG:
        exact = False
    ctx.count("lane", "exact-order" if exact else "tolerance")
    ctx.check_corr("harmonize_batch", [impl_bs], [r["bsz"]], d)
    # arg-max classes: Lean model vs numpy
    ref_np = cfc if label_aware else qcls
    adm_np = (ref_np[:, None] == cls[None, :]) if label_aware else (ref_np[:, None] != cls[None, :])
    adm = np.array([[int(v) for v in row] for row in r["adm"]], dtype=bool)
    ctx.check_corr("admissible_mask_model_vs_numpy", adm.astype(int), adm_np.astype(int).tolist(), d)
    nadm = adm_np.sum(axis=1)
    ctx.count("admissible", "none" if (nadm == 0).any() else ("fewer-than-k" if (nadm < k).any() else "enough"))
    spec = [K.rooted(row, root) for row in r["spec"]]
    model = [K.rooted([e[0] for e in row], root) for row in r["impl"]]
    # masked distances per dataset row (None = not admissible)
    dist_rows = [[(root(v) if (v is not None and adm[i][t]) else None) for t, v in enumerate(row)]
                 for i, row in enumerate(r["keys"])]
    if "distances" in out:
        ctx.check_corr("filterknn_impl_model_distances", out["distances"], model, d, **K.tol_kw(model, exact))
        ctx.check_pred("k-nearest-admissible-distances", out["distances"], spec, d, **K.tol_kw(spec, exact))
        nfin = np.isfinite(out["distances"]).sum(axis=1)
        ctx.check_prop("finite-slots-equal-min-k-admissible", bool(np.all(nfin == np.minimum(k, nadm))), d,
                       {"finite": nfin.tolist(), "admissible": nadm.tolist(), "k": k})
    if "indices" in out:
        idx = out["indices"].astype(np.int64)
        if not np.all((idx >= 0) | (idx == -1)):
            ctx.check_prop("indices-wellformed", False, d, {"indices": idx.tolist()})
            return
        rows, flat, _ = K.gather_rows(ctx, N, bs, idx)
        ctx.check_prop("flat-index-is-row", bool(np.all((rows < 0) | (rows == flat))), d)
        for i in range(n):
            for j in range(k):
                rw = rows[i][j]
                finite = ("distances" not in out) or np.isfinite(out["distances"][i, j])
                if rw >= 0 and finite:
                    ctx.check_prop("class-constraint", bool(adm_np[i][rw]), d,
                                   {"query": i, "slot": j, "row": int(rw), "case_class": int(cls[rw]),
                                    "ref_class": int(ref_np[i])})
        if "distances" not in out:
            # without distances a slot is filled iff its index is real
            nreal = (rows >= 0).sum(axis=1)
            ctx.check_prop("filled-slots-equal-min-k-admissible", bool(np.all(nreal == np.minimum(k, nadm))), d,
                           {"real": nreal.tolist(), "admissible": nadm.tolist()})
        K.validate_slots(ctx, d, "", dist_rows, rows, None, X, L, out, exact, k, N)
        same = [[int(e[1]), int(e[2])] for row in r["impl"] for e in row] == idx.reshape(-1, 2).tolist()
        ctx.count("tie_order_equals_stable_model", same)


def run_kleor(ctx, d, out, base, impl_bs, X, L, cls, qcls, root, exact):
    N, n, k, bs = d["N"], d["n"], d["k"], d["bs"]
    glob = d["method"] == "globalsim"
    nun_rows = None
    if "nuns_indices" in out:
        nidx = out["nuns_indices"].astype(np.int64)
        if not np.all((nidx >= 0) | (nidx == -1)):
            ctx.check_prop("indices-wellformed", False, d, {"nuns_indices": nidx.tolist()})
            return
        nrows, nflat_, _ = K.gather_rows(ctx, N, bs, nidx)
        ctx.check_prop("flat-index-is-row", bool(np.all((nrows < 0) | (nrows == nflat_))), d)
        nun_rows = [int(v) for v in nrows[:, 0]]
    op = dict(base, op="kleor", glob=glob)
    if nun_rows is not None:
        op["nun_rows"] = nun_rows
    r = ctx.driver.call(op)
    if K.max_key(r["dq"]) >= K.BIG or K.max_key(r["dn"]) >= K.BIG:
        exact = False
    ctx.count("lane", "exact-order" if exact else "tolerance")
    ctx.check_corr("harmonize_batch", [impl_bs], [r["bsz"]], d)
    same_np = qcls[:, None] == cls[None, :]
    same = np.array([[int(v) for v in row] for row in r["same"]], dtype=bool)
    ctx.check_corr("same_class_mask_model_vs_numpy", same.astype(int), same_np.astype(int).tolist(), d)
    model_rows = [int(v) for v in r["nun_row"]]
    dq_keys = r["dq"]                       # exact keys query -> case (unmasked)
    nun_spec = r["nun_spec"]                # exact key of the nearest unlike case (None: none)
    if nun_rows is None:
        # the NUN is not observable: use the model's NUN only where it is the unique nearest unlike case
        nun_rows = model_rows
        ambiguous = [sum(1 for t in range(N) if not same[i][t] and dq_keys[i][t] == nun_spec[i]) > 1 for i in range(n)]
    else:
        ambiguous = [False] * n
        for i in range(n):
            rw = nun_rows[i]
            if rw >= 0:
                ctx.check_prop("nun-is-unlike", not same_np[i][rw], d, {"query": i, "row": rw})
                ctx.check_prop("nun-is-nearest-unlike", dq_keys[i][rw] == nun_spec[i], d,
                               {"query": i, "row": rw, "its_key": str(dq_keys[i][rw]), "min_unlike_key": str(nun_spec[i])})
            else:
                ctx.check_prop("no-nun-only-without-unlike-case", nun_spec[i] is None, d,
                               {"query": i, "min_unlike_key": str(nun_spec[i])})
            if "nuns" in out:
                want = X[rw] if rw >= 0 else np.full(X.shape[1:], np.inf, dtype=np.float32)
                ctx.check_prop("nun-example-at-index", np.array_equal(out["nuns"][i, 0], want), d, {"query": i})
            if "nuns_labels" in out and L is not None and rw >= 0:
                ctx.check_prop("nun-label-at-index", np.array_equal(out["nuns_labels"][i, 0], L[rw]), d, {"query": i})
    ctx.count("nun", "none" if any(v is None for v in nun_spec) else "found")
    agree = model_rows == nun_rows
    ctx.count("nun_equals_stable_model", agree)
    # candidates relative to the NUN distance (exact keys; strict for GlobalSim)
    cand = np.zeros((n, N), dtype=bool)
    at_nun = 0
    for i in range(n):
        for t in range(N):
            c = bool(same[i][t]) and nun_spec[i] is not None
            if c and glob:
                if dq_keys[i][t] == nun_spec[i]:
                    at_nun += 1
                c = dq_keys[i][t] < nun_spec[i]
            cand[i][t] = c
    if glob:
        ctx.count("same_class_case_at_exactly_nun_distance", "yes" if at_nun else "no")
    ncand = cand.sum(axis=1)
    ctx.count("candidates", "none" if (ncand == 0).any() else ("fewer-than-k" if (ncand < k).any() else "enough"))
    spec = [K.rooted(row, root) for row in r["spec"]]
    model = [K.rooted([e[0] for e in row], root) for row in r["res"]]
    dn_rows = [[(root(v) if (v is not None and cand[i][t]) else None) for t, v in enumerate(row)]
               for i, row in enumerate(r["dn"])]
    dq_rows = [[(root(v) if (v is not None and cand[i][t]) else None) for t, v in enumerate(row)]
               for i, row in enumerate(dq_keys)]
    ok_q = [not ambiguous[i] for i in range(n)]
    if "dist_to_nuns" in out:
        sel = [i for i in range(n) if ok_q[i]]
        if agree and sel:
            ctx.check_corr("kleor_impl_model_dist_to_nuns", out["dist_to_nuns"][sel], [model[i] for i in sel], d,
                           **K.tol_kw(model, exact))
        if sel:
            ctx.check_pred("k-nearest-to-nun-among-candidates", out["dist_to_nuns"][sel], [spec[i] for i in sel], d,
                           **K.tol_kw(spec, exact))
        nfin = np.isfinite(out["dist_to_nuns"]).sum(axis=1)
        ctx.check_prop("finite-slots-equal-min-k-candidates",
                       bool(np.all([nfin[i] == min(k, ncand[i]) for i in sel])), d,
                       {"finite": nfin.tolist(), "candidates": ncand.tolist(), "k": k})
        if "distances" in out:
            ctx.check_prop("unfilled-slot-infinite-distance",
                           bool(np.all(np.isposinf(out["distances"][~np.isfinite(out["dist_to_nuns"])]))), d,
                           {"distances": out["distances"].tolist(), "dist_to_nuns": out["dist_to_nuns"].tolist()})
            ctx.check_prop("filled-slot-finite-distance",
                           bool(np.all(np.isfinite(out["distances"][np.isfinite(out["dist_to_nuns"])]))), d)
    elif "distances" in out:
        nfin = np.isfinite(out["distances"]).sum(axis=1)
        ctx.check_prop("finite-slots-equal-min-k-candidates",
                       bool(np.all([nfin[i] == min(k, ncand[i]) for i in range(n) if ok_q[i]])), d,
                       {"finite": nfin.tolist(), "candidates": ncand.tolist(), "k": k})
    if "indices" in out:
        idx = out["indices"].astype(np.int64)
        if not np.all((idx >= 0) | (idx == -1)):
            ctx.check_prop("indices-wellformed", False, d, {"indices": idx.tolist()})
            return
        rows, flat, _ = K.gather_rows(ctx, N, bs, idx)
        ctx.check_prop("flat-index-is-row", bool(np.all((rows < 0) | (rows == flat))), d)
        for i in range(n):
            if not ok_q[i]:
                continue
            seen = set()
            for j in range(k):
                rw = int(rows[i][j])
                fin = None
                if "dist_to_nuns" in out:
                    fin = bool(np.isfinite(out["dist_to_nuns"][i, j]))
                elif "distances" in out:
                    fin = bool(np.isfinite(out["distances"][i, j]))
                if rw < 0:
                    if "examples" in out:
                        off = 1 if "include_inputs" in d["returns_list"] else 0
                        ctx.check_prop("unfilled-slot-example", bool(np.all(np.isposinf(out["examples"][i, j + off]))), d,
                                       {"query": i, "slot": j})
                    if fin is not None:
                        ctx.check_prop("unfilled-slot-infinite", not fin, d, {"query": i, "slot": j})
                    continue
                ctx.check_prop("distinct-cases", rw not in seen, d, {"query": i, "slot": j, "row": rw})
                seen.add(rw)
                if fin is None or fin:
                    ctx.check_prop("class-constraint", bool(same_np[i][rw]), d,
                                   {"query": i, "slot": j, "row": rw, "case_class": int(cls[rw]), "query_class": int(qcls[i])})
                    if glob:
                        ctx.check_prop("globalsim-strictly-closer-than-nun",
                                       nun_spec[i] is not None and dq_keys[i][rw] < nun_spec[i], d,
                                       {"query": i, "slot": j, "row": rw, "key_to_query": str(dq_keys[i][rw]),
                                        "nun_key": str(nun_spec[i])})
                if "dist_to_nuns" in out:
                    ctx.check_prop("dist-to-nun-of-returned-index", K.close(out["dist_to_nuns"][i, j], dn_rows[i][rw], exact), d,
                                   {"query": i, "slot": j, "row": rw, "impl": float(out["dist_to_nuns"][i, j]),
                                    "true": None if dn_rows[i][rw] is None else float(dn_rows[i][rw])})
                if "distances" in out:
                    ctx.check_prop("distance-of-returned-index", K.close(out["distances"][i, j], dq_rows[i][rw], exact), d,
                                   {"query": i, "slot": j, "row": rw, "impl": float(out["distances"][i, j]),
                                    "true": None if dq_rows[i][rw] is None else float(dq_rows[i][rw])})
                if "examples" in out:
                    off = 1 if "include_inputs" in d["returns_list"] else 0
                    ctx.check_prop("example-at-index", np.array_equal(out["examples"][i, j + off], X[rw]), d,
                                   {"query": i, "slot": j, "row": rw})
                if "labels" in out and L is not None:
                    ctx.check_prop("label-at-index", np.array_equal(out["labels"][i, j], L[rw]), d,
                                   {"query": i, "slot": j, "row": rw})
        if agree:
            st = [[int(e[2]), int(e[3])] for row in r["res"] for e in row] == idx.reshape(-1, 2).tolist()
            ctx.count("tie_order_equals_stable_model", st)


# --------------------------------------------------------------------------------------
# generator
# --------------------------------------------------------------------------------------
CF_RETURNS = [["examples", "distances", "labels", "indices"], ["distances", "indices"],
              ["examples", "distances", "labels", "indices", "include_inputs"], "all", "examples", "distances",
              ["examples", "indices"], ["labels", "distances"]]
KL_FULL = ["examples", "distances", "labels", "indices", "nuns", "nuns_indices", "dist_to_nuns", "nuns_labels"]
KL_RETURNS = [KL_FULL, KL_FULL + ["include_inputs"], ["distances", "indices", "nuns_indices", "dist_to_nuns"],
              ["indices", "dist_to_nuns", "nuns_indices"], "all", ["examples", "nuns"], ["dist_to_nuns"],
              ["distances", "dist_to_nuns", "nuns_labels"], ["examples", "distances", "indices"], "nuns_indices"]


def needs_labels(ret, kleor):
    rl = K.returns_list(ret, KLEOR_POSS if kleor else BASE_POSS)
    return "labels" in rl or "nuns_labels" in rl


def gen_one(rng, thorough, method=None, N=None, bs="rand", k=None, simple=False):
    nmax = 30 if thorough else 12
    method = method or METHODS[int(rng.integers(4))]
    kleor = method in ("simmiss", "globalsim")
    if N is None:
        N = int(rng.integers(1, nmax + 1)) if rng.random() < 0.8 else int(rng.integers(1, 5))
    shape = [int(rng.integers(1, 3))] if simple else K.gen_shape(rng, thorough)
    nflat = int(np.prod(shape))
    cont = "np" if simple else K.CONTAINERS[int(rng.choice(len(K.CONTAINERS), p=[.31, .09, .09, .07, .07, .09, .05, .05, .07, .04, .03, .04]))]
    if bs == "rand":
        bs = int(rng.integers(1, N + 2))
        if cont in ("np", "tf", "torch") and rng.random() < 0.1:
            bs = None
        if cont.startswith("ds_u") and bs > N:
            bs = N
    if k is None:
        k = int(rng.integers(1, N + 1))
        if rng.random() < 0.05:
            k = N + 1
    nc = int(rng.integers(2, 5))
    proj = {"kind": "none", "mappable": False, "m": nflat} if simple else K.gen_proj(rng, nflat, nc)
    dist = {"name": "manhattan"} if simple else K.gen_dist(rng, proj["m"], allow_cos=False, positive_w=kleor)
    if method == "globalsim" and dist["name"] in ("mink3", "mink4"):
        # the strict comparison at exactly the NUN distance is only meaningful where float32 keeps exact ties
        dist = {"name": "euclidean"}
    rets = KL_RETURNS if kleor else CF_RETURNS
    pr = np.array([8, 3, 3, 2] + [1] * (len(rets) - 4), dtype=float)
    ret = rets[0] if simple else rets[int(rng.choice(len(rets), p=pr / pr.sum()))]
    labels = "scalar"
    if cont == "ds_u1":
        labels = "vec"
    elif rng.random() < 0.2:
        labels = ["float", "vec"][int(rng.integers(2))]
    if not needs_labels(ret, kleor) and not cont.endswith(("2", "3")) and rng.random() < 0.4:
        labels = None
    return {"method": method, "N": N, "shape": shape, "n": int(rng.integers(1, 4)), "k": k, "bs": bs,
            "container": cont, "nc": nc, "dist": dist, "proj": proj, "returns": ret, "labels": labels,
            "cmode": ["random", "one", "missing", "rare"][int(rng.choice(4, p=[.55, .12, .15, .18]))],
            "tmode": "onehot" if rng.random() < 0.6 else "scores",
            "tie_nun": bool(kleor and rng.random() < 0.4),
            "dup": float([0.0, 0.3, 0.6][int(rng.integers(3))]), "case_seed": int(rng.integers(1 << 31))}


def gen_cases(ctx):
    rng = ctx.rng
    thorough = ctx.tier == "thorough"
    scale = ctx.budget_scale
    cases = []
    nmax = 5 if thorough else 3
    for method in METHODS:
        for N in range(1, nmax + 1):
            for bs in range(1, N + 2):
                for k in range(1, N + 1):
                    if thorough or rng.random() < 0.3 * scale:
                        cases.append(gen_one(rng, thorough, method=method, N=N, bs=bs, k=k, simple=True))
    for _ in range((1200 if thorough else 100) * scale):
        cases.append(gen_one(rng, thorough))
    # common offset of cases and queries (translation-invariant distances, no projection)
    for j in range((24 if thorough else 8) * ctx.budget_scale):
        d = gen_one(rng, thorough, method=METHODS[j % 4], simple=True)
        d["dmode"] = "offset"
        d["dist"] = {"name": ["euclidean", "mink2", "chebyshev", "mink3"][(j // 4 + j) % 4]}
        cases.append(d)
    return cases


def run(ctx):
    for d in K.corpus_cases("C17") + gen_cases(ctx):
        d.pop("returns_list", None)
        run_case(ctx, d)
    from props import c16_reuse
    for d in c16_reuse.gen_extra_cases(ctx.rng, ctx.tier == "thorough", ["naive", "labelaware", "simmiss"]):
        c16_reuse.run_extra(ctx, d)


def replay(ctx, r):
    import json
    d = dict(r["case"] if "case" in r else r["first_disagreement"][0])
    d.pop("returns_list", None)
    if d.get("family"):
        from props import c16_reuse
        c16_reuse.run_extra(ctx, d)
        return
    X, Q, L, T, QT, CF, cls, qcls, cfc = build(d)
    print("replay case:", json.dumps(d))
    print(" cases X =", X.tolist(), "\n case classes =", cls.tolist(), "\n queries Q =", Q.tolist(),
          "\n query classes =", qcls.tolist(), "\n cf_expected classes =", cfc.tolist())
    run_case(ctx, d)
    for f in ctx.prop_failures[:6]:
        print(" failing predicate:", f[0], f[3])


extra = K.extra
