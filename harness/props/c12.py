"""C12 - common API contract: shapes, dtypes and input containers.

Implementation: the 16 attribution methods x supported data kinds x containers.
Model: Lean Shp.explainShape / Shp.documented / Shp.sanitize.
"""
import numpy as np

RULE = ("cases = (method, data kind + sample shape incl. odd sizes / H != W / single feature / single time step, N in "
        "{1,2,3,5}, container in {float32 / float64 / int ndarray, tf tensors, unbatched tf.data, tf.data batched by "
        "b in 1..N+1, batched + prefetch}) sampled so that every method and every container appears (thorough: many "
        "more); each case explains through the container and through a float32 ndarray reference under the same "
        "seeds and checks shape (vs Lean explainShape = documented), dtype float32, finiteness, value identity, and "
        "__call__ == explain; distinct = descriptor hash; non-trivial = the reference explanation is not constant")

METHODS = ["Saliency", "GradientInput", "IntegratedGradients", "SmoothGrad", "SquareGrad", "VarGrad", "DeconvNet",
           "GuidedBackprop", "GradCAM", "GradCAMPP", "Occlusion", "Rise", "Lime", "KernelShap", "Sobol", "Hsic"]
IMG_ONLY = {"GradCAM", "GradCAMPP", "Sobol", "Hsic"}
_MODELS = {}


def get_model(tf, kind, shape):
    key = (kind,) + tuple(shape)
    if key in _MODELS:
        return _MODELS[key]
    import zlib
    rng = np.random.default_rng(zlib.crc32(repr(key).encode()))     # stable across processes (str hashes are randomised)
    inp = tf.keras.Input(tuple(shape))
    tag = "_".join(map(str, key))
    if kind == "img":
        # softplus (never flat): a ReLU unit that is dead on a sample makes the score constant around that sample,
        # for which Sobol's variance is 0 and the documented result is NaN - outside the property ("score not constant")
        c = tf.keras.layers.Conv2D(2, (2, 2), padding="same", activation="softplus", name=f"conv_{tag}")(inp)
        f = tf.keras.layers.Flatten(name=f"fl_{tag}")(c)
    elif kind == "ts":
        f = tf.keras.layers.Flatten(name=f"fl_{tag}")(inp)
    else:
        f = inp
    h = tf.keras.layers.Dense(4, activation="tanh", name=f"h_{tag}")(f)
    out = tf.keras.layers.Dense(3, name=f"o_{tag}")(h)
    m = tf.keras.Model(inp, out)
    for v in m.trainable_variables:
        v.assign((rng.integers(-4, 5, size=v.shape) / 8.0).astype(np.float32))
    _MODELS[key] = m
    return m


def build(name, model, kind, cfg=0):
    """cfg 0: batch_size 4 and small grids; cfg 1: batch_size 7 (several inputs per pass for the sampling methods, N not a
    multiple of it), Rise with its default grid (larger than some inputs); cfg 2: batch_size None (whole workload at once)"""
    from xplique import attributions as A
    bs = {0: 4, 1: 7, 2: None}[cfg]
    if name in ("Saliency", "GradientInput", "DeconvNet", "GuidedBackprop"):
        return getattr(A, name)(model, batch_size=bs)
    if name == "IntegratedGradients":
        return A.IntegratedGradients(model, batch_size=bs, steps=3)
    if name in ("SmoothGrad", "SquareGrad", "VarGrad"):
        return getattr(A, name)(model, batch_size=bs, nb_samples=3, noise=0.0)
    if name in ("GradCAM", "GradCAMPP"):
        return getattr(A, name)(model, batch_size=bs)
    if name == "Occlusion":
        p = 2 if kind == "img" else 1
        return A.Occlusion(model, batch_size=bs, patch_size=p, patch_stride=p)
    if name == "Rise":
        if cfg == 1:
            return A.Rise(model, batch_size=bs, nb_samples=6)
        return A.Rise(model, batch_size=bs, nb_samples=6, grid_size=2 if cfg == 0 else 3)
    if name == "Lime":
        return A.Lime(model, batch_size=bs, nb_samples=14)
    if name == "KernelShap":
        return A.KernelShap(model, batch_size=bs, nb_samples=14)
    if name == "Sobol":
        return A.SobolAttributionMethod(model, grid_size=2, nb_design=4, batch_size={0: 8, 1: 13, 2: None}[cfg])
    if name == "Hsic":
        return A.HsicAttributionMethod(model, grid_size=2, nb_design=8, batch_size={0: 8, 1: 13, 2: None}[cfg])
    raise ValueError(name)


def kind_json(kind, shape):
    if kind == "tab":
        return {"k": "tab", "w": shape[0]}
    if kind == "ts":
        return {"k": "ts", "t": shape[0], "w": shape[1]}
    return {"k": "img", "h": shape[0], "w": shape[1], "c": shape[2]}


def make_container(tf, cont, x, y):
    k = cont["kind"]
    if k == "ndarray":
        return x.astype(cont["dtype"]), y
    if k == "tensor":
        return tf.constant(x.astype(cont["dtype"])), tf.constant(y)
    ds = tf.data.Dataset.from_tensor_slices((x, y))
    if cont.get("batch"):
        ds = ds.batch(cont["batch"])
    if cont.get("wrapped"):
        ds = ds.prefetch(1)
    return ds, None


def run_case(ctx, d):
    import tensorflow as tf
    rng = np.random.default_rng(d["case_seed"])
    kind, shape, n, name, cont = d["kind"], tuple(d["shape"]), d["N"], d["method"], d["container"]
    model = get_model(tf, kind, shape)
    x = rng.integers(-3, 4, size=(n,) + shape).astype(np.float32)
    if cont.get("dtype", "float32").startswith("float"):
        x = x / 2.0 + (0.25 if name in ("Lime", "KernelShap") else 0.0)
    y = np.eye(3, dtype=np.float32)[rng.integers(3, size=n)]
    lean = ctx.driver.call({"op": "explain_shape", "method": name, "kind": kind_json(kind, shape), "n": n, "reducer": True})

    def seeded(fn):
        tf.random.set_seed(d["case_seed"] % 997)
        np.random.seed(d["case_seed"] % 997)
        return fn()

    ok, ref = ctx.impl_call(d, lambda: seeded(lambda: build(name, model, kind, d.get("cfg", 0)).explain(x.astype(np.float32), y)),
                            signature="reference-ndarray")
    if not ok:
        ctx.case(d, False)
        return
    refn = ref.numpy()
    ctx.case(d, bool(np.ptp(refn) > 0))
    ctx.count("method", name)
    ctx.count("container", cont["kind"] + (":b" if cont.get("batch") else "") + (":wrapped" if cont.get("wrapped") else "")
              + (":" + cont["dtype"] if "dtype" in cont else ""))
    ctx.count("kind", kind)
    ctx.count("cfg", {0: "bs4", 1: "bs7+default-grid", 2: "bs-none"}[d.get("cfg", 0)])
    doc = [int(v) for v in lean["documented"]]
    ctx.check_prop("documented-shape", list(refn.shape) == doc, d, {"got": list(refn.shape), "documented": doc})
    if lean["shape"] is not None and list(refn.shape) != [int(v) for v in lean["shape"]]:
        ctx.corr_failures.append(("explain_shape_model", d, {"impl": list(refn.shape), "model": lean["shape"]}))
    else:
        ctx.lanes["exact"] += 1
    ctx.check_prop("dtype-float32", ref.dtype == tf.float32, d, {"dtype": str(ref.dtype)})
    ctx.check_prop("finite", bool(np.all(np.isfinite(refn))), d, {"nonfinite": int(np.sum(~np.isfinite(refn)))})
    # the same values through the container
    sig = None
    if cont["kind"] == "dataset" and cont.get("batch") and cont.get("wrapped"):
        sig = "batched dataset wrapped by prefetch|map"
    rows = ctx.driver.call({"op": "sanitize", "n": n, "container": {
        "kind": "dataset" if cont["kind"] == "dataset" else "array", "batch": cont.get("batch"),
        "wrapped": bool(cont.get("wrapped"))}})
    model_ok = all(len(r) == 1 for r in rows) and len(rows) == n
    inp, tgt = make_container(tf, cont, x, y)
    try:
        out = seeded(lambda: build(name, model, kind, d.get("cfg", 0))(inp, tgt)).numpy()
        # "identical" up to float32 re-association: TF's multi-threaded kernels may split reductions differently
        # from run to run (observed under heavy machine load), so bitwise equality is not demanded
        # (Grad-CAM++ divides by 2G^2 + G^3*mean(A), which can nearly cancel and amplify a one-ulp difference)
        rt, at = (1e-3, 1e-4) if name == "GradCAMPP" else (1e-5, 1e-6)
        same = out.shape == refn.shape and bool(np.allclose(out, refn, rtol=rt, atol=at * max(1.0, float(np.abs(refn).max()))))
        detail = {"container_shape": list(out.shape), "reference_shape": list(refn.shape),
                  "maxdiff": float(np.max(np.abs(out - refn))) if out.shape == refn.shape else None}
    except Exception as e:  # noqa: BLE001
        same = False
        detail = {"exception": (type(e).__name__ + ": " + str(e))[:300]}
    if same != model_ok and sig is None:
        ctx.corr_failures.append(("sanitize_model", d, {"impl_same": same, "model_same": model_ok}))
    ctx.check_prop("dataset-container" if cont["kind"] == "dataset" else "array-container", same, d, detail, signature=sig)
    if d.get("check_call"):
        ok, e2 = ctx.impl_call(d, lambda: seeded(lambda: build(name, model, kind, d.get("cfg", 0))(x.astype(np.float32), y)).numpy())
        if ok:
            ctx.check_prop("call-is-explain", e2.shape == refn.shape and bool(np.allclose(e2, refn, rtol=1e-5, atol=1e-6 * max(1.0, float(np.abs(refn).max())))),
                           d, {"maxdiff": float(np.max(np.abs(e2 - refn))) if e2.shape == refn.shape else None})


def gen_cases(ctx):
    rng = ctx.rng
    thorough = ctx.tier == "thorough"
    cases = []
    tab_shapes = [(1,), (3,), (6,)]
    ts_shapes = [(1, 3), (4, 1), (5, 3)]
    img_shapes = [(5, 7, 1), (4, 6, 3), (7, 5, 3), (3, 3, 1), (6, 4, 2), (5, 6, 4)]
    containers = [{"kind": "ndarray", "dtype": "float32"}, {"kind": "ndarray", "dtype": "float64"},
                  {"kind": "ndarray", "dtype": "int32"}, {"kind": "tensor", "dtype": "float32"},
                  {"kind": "tensor", "dtype": "float64"}, {"kind": "tensor", "dtype": "int64"},
                  {"kind": "dataset"}, {"kind": "dataset", "batch": "b"}, {"kind": "dataset", "batch": "b"},
                  {"kind": "dataset", "batch": "b", "wrapped": True}]
    per_method = (30 if thorough else 6) * ctx.budget_scale
    for name in METHODS:
        for j in range(per_method):
            if name in IMG_ONLY:
                kind = "img"
            else:
                kind = ["tab", "ts", "img"][j % 3]
            if kind == "tab":
                shape = tab_shapes[int(rng.integers(len(tab_shapes)))]
            elif kind == "ts":
                shape = ts_shapes[int(rng.integers(len(ts_shapes)))]
            else:
                pool = [s for s in img_shapes if s[2] in (1, 3)] if name in ("Lime", "KernelShap") else img_shapes
                if METHODS.index(name) < 10:        # gradient-based methods also see strip images (a singleton side)
                    pool = pool + [(1, 5, 3), (5, 1, 2)]
                shape = pool[(METHODS.index(name) + j // 3 + int(rng.integers(2))) % len(pool)]   # channel counts 1..4 spread over the methods
            n = int(rng.choice([1, 2, 3, 5, 6, 9]))
            cont = dict(containers[(j + int(rng.integers(len(containers)))) % len(containers)])
            if cont.get("batch") == "b":
                # favour several batches of >= 2 samples (+ remainder): where a wrong un-batching order shows
                if rng.random() < 0.7:
                    n = int(rng.choice([3, 4, 5]))
                    cont["batch"] = int(rng.integers(2, n))
                else:
                    cont["batch"] = int(rng.integers(1, n + 2))
            cases.append({"method": name, "kind": kind, "shape": list(shape), "N": n, "container": cont,
                          "check_call": bool(j % 3 == 0), "cfg": int((j // 3) % 3) if j >= 3 else int(rng.integers(3)),
                          "case_seed": int(rng.integers(1 << 31))})
    # every method sees the known-finding container at least once in thorough runs only (slow: it raises / reshapes)
    return cases


def run(ctx):
    for d in gen_cases(ctx):
        run_case(ctx, d)


def replay(ctx, r):
    run_case(ctx, r["case"] if "case" in r else r["first_disagreement"][0])
