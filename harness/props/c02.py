"""C02 - the explained function is the one selected by operator / output_layer / targets.

Implementation: get_operator / get_inference_function / get_gradient_functions, the task operators,
find_layer + WhiteBoxExplainer(output_layer=...), and every method / metric with a custom operator.
Model: Lean Op.resolve / inferenceOf / gradientOf / findLayer / segScore / boxIoU / driseScore.
"""
import numpy as np

from common import enc, fr

RULE = ("four case families: (table) every (operator argument x model kind) pair of the documented table - "
        "exhaustive; (opvalue) random box sets / class counts / reference boxes and random segmentation "
        "predictions / zones, operator values vs Lean; (output_layer) white-box class x functional model x "
        "layer reference (name, index, negative index, middle layer): explainer(m, output_layer=L) vs the same "
        "class on the truncated model; (custom_operator) every attribution method and fidelity metric with a "
        "custom operator g vs the default operator on a model whose default score is g. distinct = descriptor "
        "hash; non-trivial = the compared outputs are not constant / the truncated result differs from the full one")

ALIASES = ["classification", "regression", "semantic segmentation", "object detection",
           "object detection box position", "object detection box proba", "object detection box class"]
TASKS = ["CLASSIFICATION", "REGRESSION", "SEMANTIC_SEGMENTATION", "OBJECT_DETECTION",
         "OBJECT_DETECTION_BOX_POSITION", "OBJECT_DETECTION_BOX_PROBA", "OBJECT_DETECTION_BOX_CLASS"]
EPS32 = fr(np.float32(1e-4))


# ------------------------------------------------------------------------------------------------
# behavioural identification of an operator: evaluate it and match against the Lean values
# ------------------------------------------------------------------------------------------------
def det_fixture(rng, nc=3, npred=4, nref=2, n=2):
    def boxes(k):
        x1 = rng.integers(0, 6, size=k)
        y1 = rng.integers(0, 6, size=k)
        w = rng.integers(1, 5, size=k)
        h = rng.integers(1, 5, size=k)
        return np.stack([x1, y1, x1 + w, y1 + h], 1).astype(np.float32)
    preds = np.zeros((n, npred, 5 + nc), np.float32)
    refs = np.zeros((n, nref, 5 + nc), np.float32)
    for i in range(n):
        preds[i, :, :4] = boxes(npred)
        preds[i, :, 4] = rng.integers(1, 8, size=npred) / 8.0
        preds[i, :, 5:] = rng.integers(0, 4, size=(npred, nc)) / 4.0
        preds[i, :, 5] += 0.25
        refs[i, :, :4] = boxes(nref)
        if rng.random() < 0.5:          # make a reference overlap a prediction strongly
            refs[i, 0, :4] = preds[i, int(rng.integers(npred)), :4]
        refs[i, :, 4] = 1.0
        cls = rng.integers(nc, size=nref)
        refs[i, np.arange(nref), 5 + cls] = 1.0
        if rng.random() < 0.6:
            # targets taken from a detector's own predictions: class PROBABILITY vectors, not one-hot
            # (added after a seeded change that dropped the reference-norm factor of the class cosine was missed)
            refs[i, :, 5:] = rng.integers(0, 4, size=(nref, nc)) / 4.0
            refs[i, :, 5] += 0.25
    return preds, refs


def obj_json(row):
    cls = [float(v) for v in row[5:]]
    nrm = float(np.linalg.norm(np.asarray(cls, dtype=np.float32)))
    return {"box": enc(row[:4]), "prob": enc(row[4]), "cls": enc(row[5:]), "nrm": enc(np.float32(nrm))}


def lean_drise(ctx, preds, refs, ip, ic):
    out = []
    for i in range(preds.shape[0]):
        r = refs[i] if refs[i].ndim == 2 else refs[i][None]
        res = ctx.driver.call({"op": "drise", "eps": enc(EPS32), "incl_prob": ip, "incl_class": ic,
                               "refs": [obj_json(x) for x in r], "preds": [obj_json(x) for x in preds[i]]})
        out.append(res["score"])
    return out


def seg_fixture(rng, n=2, h=3, w=4, c=2, signed=False):
    pred = (rng.integers(0, 9, size=(n, h, w, c)) / 8.0).astype(np.float32)
    t = np.zeros((n, h, w, c), np.float32)
    for i in range(n):
        ch = int(rng.integers(c))
        a, b = sorted(rng.integers(0, h + 1, size=2))
        e, f = sorted(rng.integers(0, w + 1, size=2))
        if a == b:
            b = min(h, a + 1); a = b - 1
        if e == f:
            f = min(w, e + 1); e = f - 1
        t[i, a:b, e:f, ch] = 1.0
        if signed and rng.random() < 0.7:
            # documented border / difference masks: entries in {-1, 0, +1}
            t[i, a:b, e:e + 1, ch] = -1.0
            if h > 1:
                t[i, (a - 1) % h, e:f, (ch + 1) % c] = -1.0
    return pred, t


def distinct_det_fixture(ctx, rng):
    """a detection fixture on which the four documented variants give pairwise different scores"""
    for _ in range(50):
        preds, refs = det_fixture(rng)
        vals = {(ip, ic): [float(v) for v in lean_drise(ctx, preds, refs, ip, ic)] for ip in (True, False) for ic in (True, False)}
        keys = list(vals)
        if all(max(abs(a - b) for a, b in zip(vals[k1], vals[k2])) > 1e-2
               for i, k1 in enumerate(keys) for k2 in keys[i + 1:]):
            return preds, refs, vals
    raise RuntimeError("no separating fixture")


def classify_operator(ctx, tf, op, rng):
    """return the tag of the built-in operator `op` behaves as (or 'other')"""
    from common import compare
    preds, refs, vals = distinct_det_fixture(ctx, rng)
    x = tf.zeros((preds.shape[0], 2, 2, 1))
    try:
        v = np.asarray(op(lambda _x: tf.constant(preds), x, tf.constant(refs)))
        for (ip, ic), lv in vals.items():
            if v.shape == (len(lv),) and bool(np.allclose(v, lv, rtol=1e-4, atol=1e-5)):
                return f"detection:{int(ip)}:{int(ic)}"
    except Exception:  # noqa: BLE001
        pass
    pred, t = seg_fixture(rng)
    xs = tf.zeros((pred.shape[0], 2, 2, 1))
    try:
        v = np.asarray(op(lambda _x: tf.constant(pred), xs, tf.constant(t)))
        seg = [ctx.driver.call({"op": "seg_score", "pred": enc(pred[i].reshape(-1)), "t": enc(t[i].reshape(-1))})
               for i in range(pred.shape[0])]
        if compare(v, seg, rtol=1e-5, atol=1e-6)[0] in ("exact", "tol"):
            return "segmentation"
    except Exception:  # noqa: BLE001
        pass
    try:
        y = rng.integers(-2, 3, size=(2, 5)).astype(np.float32)
        p = rng.integers(-2, 3, size=(2, 5)).astype(np.float32)
        v = np.asarray(op(lambda _x: tf.constant(p), xs, tf.constant(y)))
        if np.array_equal(v, (p * y).sum(-1)):
            return "predictions"
    except Exception:  # noqa: BLE001
        pass
    return "other"


def run_table(ctx):
    import tensorflow as tf
    from xplique.commons import Tasks
    from xplique.commons.operators_operations import get_operator, get_inference_function, get_gradient_functions
    from xplique.commons.callable_operations import predictions_one_hot_callable
    from xplique.commons.exceptions import no_gradients_available
    rng = np.random.default_rng(ctx.seed + 17)

    def custom3(f, x, y):
        return tf.reduce_sum(f(x) * y, -1) * 3.0

    def custom2(f, x):
        return x

    args = [({"kind": "none"}, None)]
    args += [({"kind": "name", "name": a}, a) for a in ALIASES]
    args += [({"kind": "name", "name": a}, a) for a in ["Classification", "object_detection", "segmentation", ""]]
    args += [({"kind": "task", "task": t}, getattr(Tasks, t)) for t in TASKS]
    args += [({"kind": "custom", "id": 7, "nargs": 3}, custom3), ({"kind": "custom", "id": 8, "nargs": 2}, custom2),
             ({"kind": "notcallable"}, 3.5)]

    class PP:
        def predict_proba(self, x):
            return np.zeros((len(x), 2))

    class Mod(tf.Module):
        def __call__(self, x):
            return x

    inp = tf.keras.Input((3,))
    kinds = {"keras": tf.keras.Model(inp, tf.keras.layers.Dense(2)(inp)), "tfModule": Mod(),
             "layer": tf.keras.layers.Dense(2), "callable": (lambda x: np.zeros((len(x), 2))), "predictProba": PP()}
    for aj, pyarg in args:
        for kname, mobj in kinds.items():
            d = {"type": "table", "arg": aj, "model": kname}
            exp = ctx.driver.call({"op": "op_resolve", "arg": aj, "model": kname})
            ctx.case(d, True)
            pa = pyarg.value if (aj["kind"] == "task" and False) else pyarg
            try:
                inf, _ = get_inference_function(mobj, pa)
                if inf is predictions_one_hot_callable:
                    got = "one-hot-callable"
                elif aj["kind"] == "custom" and inf is pyarg:
                    got = f"custom:{aj['id']}"
                else:
                    got = classify_operator(ctx, tf, inf, rng)
            except Exception:  # noqa: BLE001
                got = "error"
            ctx.check_prop("operator-selected", got == exp["inference"], d, {"got": got, "expected": exp["inference"]})
            try:
                g, _ = get_gradient_functions(mobj, pa)
                gg = "no-gradient" if g is no_gradients_available else "has-gradient"
            except Exception:  # noqa: BLE001
                gg = "error"
            want = exp["gradient"] if exp["gradient"] in ("no-gradient", "error") else "has-gradient"
            ctx.check_prop("gradient-available", gg == want, d, {"got": gg, "expected": want})
            ctx.count("table_rows")


def run_opvalue(ctx, d):
    import tensorflow as tf
    from xplique.commons.operators_operations import get_operator
    rng = np.random.default_rng(d["case_seed"])
    ctx.case(d, True)
    if d["family"] == "detection":
        preds, refs = det_fixture(rng, nc=d["nc"], npred=d["npred"], nref=d["nref"], n=d["n"])
        tgt = refs[:, 0, :] if d["single_vector"] else refs
        x = tf.zeros((d["n"], 2, 2, 1))
        for name, ip, ic in [("object detection", True, True), ("object detection box position", False, False),
                             ("object detection box proba", True, False), ("object detection box class", False, True)]:
            ok, v = ctx.impl_call(d, lambda: np.asarray(get_operator(name)(lambda _x: tf.constant(preds), x, tf.constant(tgt))))
            if not ok:
                continue
            r = refs[:, :1, :] if d["single_vector"] else refs
            ctx.check_pred("documented-detection-score:" + name, v, lean_drise(ctx, preds, r, ip, ic), d,
                           rtol=2e-4, atol=1e-5)
        ctx.count("opvalue", "detection")
    else:
        signed = bool(d.get("signed"))
        pred, t = seg_fixture(rng, n=d["n"], h=d["h"], w=d["w"], c=d["c"], signed=signed)
        x = tf.zeros((d["n"], 2, 2, 1))
        ok, v = ctx.impl_call(d, lambda: np.asarray(get_operator("semantic segmentation")(lambda _x: tf.constant(pred), x, tf.constant(t))))
        if ok:
            # documented score sum(pred * t) / #{t != 0}: by the Lean model, and independently (= the zone mean for 0/1 masks)
            seg = [ctx.driver.call({"op": "seg_score", "pred": enc(pred[i].reshape(-1)), "t": enc(t[i].reshape(-1))})
                   for i in range(d["n"])]
            doc = [float((pred[i].astype(np.float64) * t[i]).sum() / np.count_nonzero(t[i])) for i in range(d["n"])]
            ctx.check_corr("seg_model", v, seg, d, rtol=1e-5, atol=1e-6)
            ctx.check_prop("segmentation-zone-mean", bool(np.allclose(v, doc, rtol=1e-5, atol=1e-6)), d,
                           {"impl": v.tolist(), "documented": doc, "signed_targets": signed})
            if not signed:
                zone = [float(pred[i][t[i] == 1].mean()) for i in range(d["n"])]
                ctx.check_prop("segmentation-zone-mean", bool(np.allclose(v, zone, rtol=1e-5, atol=1e-6)), d,
                               {"impl": v.tolist(), "zone_mean": zone})
        ctx.count("opvalue", "segmentation")


# ------------------------------------------------------------------------------------------------
_MODELS = {}


def wb_model(tf, kind, seed):
    key = (kind, seed)
    if key in _MODELS:
        return _MODELS[key]
    rng = np.random.default_rng(1000 + seed)
    if kind == "dense":
        inp = tf.keras.Input((6,))
        h = tf.keras.layers.Dense(5, activation="relu", name=f"h_{seed}")(inp)
        lg = tf.keras.layers.Dense(3, name=f"logits_{seed}")(h)
        out = tf.keras.layers.Softmax(name=f"sm_{seed}")(lg)
        names = [f"h_{seed}", f"logits_{seed}"]
    else:
        inp = tf.keras.Input((6, 8, 2))
        c = tf.keras.layers.Conv2D(3, 3, activation="relu", name=f"conv_{seed}")(inp)
        f = tf.keras.layers.Flatten(name=f"flat_{seed}")(c)
        h = tf.keras.layers.Dense(4, activation="tanh", name=f"h_{seed}")(f)
        lg = tf.keras.layers.Dense(3, name=f"logits_{seed}")(h)
        out = tf.keras.layers.Activation("sigmoid", name=f"sm_{seed}")(lg)
        names = [f"h_{seed}", f"logits_{seed}"]
    m = tf.keras.Model(inp, out)
    for v in m.trainable_variables:
        v.assign((rng.integers(-4, 5, size=v.shape) / 4.0).astype(np.float32))
    _MODELS[key] = (m, names)
    return m, names


def wb_classes():
    from xplique import attributions as A
    return {"Saliency": (A.Saliency, {}), "GradientInput": (A.GradientInput, {}),
            "IntegratedGradients": (A.IntegratedGradients, {"steps": 5, "baseline_value": 0.5}),
            "SmoothGrad": (A.SmoothGrad, {"nb_samples": 4, "noise": 0.0}),
            "SquareGrad": (A.SquareGrad, {"nb_samples": 4, "noise": 0.0}),
            "VarGrad": (A.VarGrad, {"nb_samples": 4, "noise": 0.0}),
            "DeconvNet": (A.DeconvNet, {}), "GuidedBackprop": (A.GuidedBackprop, {}),
            "GradCAM": (A.GradCAM, {}), "GradCAMPP": (A.GradCAMPP, {})}


def run_output_layer(ctx, d):
    import tensorflow as tf
    from xplique.commons import find_layer
    rng = np.random.default_rng(d["case_seed"])
    m, names = wb_model(tf, d["model"], d["model_seed"])
    cls, kw = wb_classes()[d["cls"]]
    layer_names = [l.name for l in m.layers]
    ref = d["ref"]
    if ref["by"] == "name":
        pyref = names[ref["which"]]
        lean_q = {"op": "find_layer", "names": layer_names, "name": pyref}
    else:
        target = layer_names.index(names[ref["which"]])
        idx = target if ref["by"] == "index" else target - len(layer_names)
        pyref = idx
        lean_q = {"op": "find_layer", "names": layer_names, "index": idx}
    li = ctx.driver.call(lean_q)
    ok, lay = ctx.impl_call(d, lambda: find_layer(m, pyref))
    if not ok:
        ctx.case(d, False)
        return
    ctx.check_prop("find-layer", li is not None and layer_names[int(li)] == lay.name, d,
                   {"impl": lay.name, "model_index": None if li is None else int(li)})
    n = 2
    x = (rng.integers(-4, 5, size=(n,) + tuple(m.input.shape[1:])) / 4.0).astype(np.float32)
    nout = lay.output.shape[-1]
    y = (rng.integers(-2, 3, size=(n, nout))).astype(np.float32)
    y[:, 0] += 1.0
    trunc = tf.keras.Model(m.input, lay.output)
    ok, e_l = ctx.impl_call(d, lambda: cls(m, output_layer=pyref, **kw)(x, y).numpy())
    if not ok:
        ctx.case(d, False)
        return
    e_t = cls(trunc, **kw)(x, y).numpy()
    # the full model has another output size unless the layer is the logits layer; compare where it can
    differs_from_full = True
    if nout == m.output.shape[-1]:
        e_full = cls(m, **kw)(x, y).numpy()
        differs_from_full = not np.allclose(e_full, e_t, rtol=1e-5, atol=1e-7)
    ctx.case(d, differs_from_full and float(np.abs(e_t).max()) > 0)
    ctx.count("output_layer", d["cls"])
    ctx.check_prop("output-layer-truncates", e_l.shape == e_t.shape and bool(np.allclose(e_l, e_t, rtol=1e-5, atol=1e-7)),
                   d, {"with_output_layer": e_l.reshape(-1)[:6].tolist(), "on_truncated_model": e_t.reshape(-1)[:6].tolist()})


def bb_methods(tf, shape):
    from xplique import attributions as A
    h, w = shape[0], shape[1]
    mapping = (np.arange(h)[:, None] // 3 * 3 + np.arange(w)[None, :] // 3).astype(np.int32)
    mapping = np.unique(mapping, return_inverse=True)[1].reshape(h, w).astype(np.int32)
    mp = lambda inp: tf.constant(mapping)  # noqa: E731
    return {
        "Occlusion": lambda m, op: A.Occlusion(m, operator=op, patch_size=2, patch_stride=2, batch_size=7),
        "Rise": lambda m, op: A.Rise(m, operator=op, nb_samples=12, grid_size=2, batch_size=5),
        "Lime": lambda m, op: A.Lime(m, operator=op, nb_samples=20, map_to_interpret_space=mp, batch_size=6, ref_value=np.zeros(2, np.float32)),
        "KernelShap": lambda m, op: A.KernelShap(m, operator=op, nb_samples=20, map_to_interpret_space=mp, batch_size=6, ref_value=np.zeros(2, np.float32)),
        "Sobol": lambda m, op: A.SobolAttributionMethod(m, operator=op, grid_size=2, nb_design=4, batch_size=8),
        "Hsic": lambda m, op: A.HsicAttributionMethod(m, operator=op, grid_size=2, nb_design=8, batch_size=8),
    }


def run_custom_operator(ctx, d):
    import tensorflow as tf
    from xplique import metrics as M
    rng = np.random.default_rng(d["case_seed"])
    m, _ = wb_model(tf, "conv", d["model_seed"])
    sq = tf.keras.Model(m.input, tf.keras.layers.Add()([tf.keras.layers.Multiply()([m.output, m.output]), m.output]))
    g = lambda f, x, y: tf.reduce_sum((f(x) ** 2 + f(x)) * y, -1)  # noqa: E731
    n = 2
    x = (rng.integers(0, 9, size=(n, 6, 8, 2)) / 8.0).astype(np.float32)
    y = np.eye(3, dtype=np.float32)[rng.integers(3, size=n)]
    name = d["method"]
    wb = wb_classes()

    def seeded(fn):
        tf.random.set_seed(d["case_seed"] % 1000)
        np.random.seed(d["case_seed"] % 1000)
        return fn()

    if name in wb:
        cls, kw = wb[name]
        build = lambda mod, op: cls(mod, operator=op, **kw)  # noqa: E731
        run = lambda e: e(x, y).numpy()  # noqa: E731
    elif name in ("Deletion", "Insertion", "MuFidelity"):
        expl = (rng.integers(0, 9, size=(n, 6, 8, 1)) / 8.0).astype(np.float32)
        kwm = {"steps": 4} if name != "MuFidelity" else {"nb_samples": 8, "grid_size": 2}
        build = lambda mod, op: getattr(M, name)(mod, x, y, batch_size=5, operator=op, **kwm)  # noqa: E731
        run = lambda e: np.asarray(e(expl), dtype=np.float64)  # noqa: E731
    else:
        build = bb_methods(tf, (6, 8))[name]
        run = lambda e: e(x, y).numpy()  # noqa: E731
    ok, a = ctx.impl_call(d, lambda: seeded(lambda: run(build(m, g))))
    if not ok:
        ctx.case(d, False)
        return
    b1 = seeded(lambda: run(build(sq, None)))
    b2 = seeded(lambda: run(build(sq, None)))
    base = seeded(lambda: run(build(m, None)))
    if not np.allclose(b1, b2, rtol=1e-6, atol=1e-8):
        ctx.count("custom_operator_nondeterministic_skipped", name)
        ctx.case(d, False)
        return
    ctx.case(d, not np.allclose(base, b1, rtol=1e-4, atol=1e-6))
    ctx.count("custom_operator", name)
    ctx.check_prop("custom-operator-honoured", np.shape(a) == np.shape(b1) and bool(np.allclose(a, b1, rtol=2e-4, atol=2e-6)),
                   d, {"with_operator": np.ravel(a)[:6].tolist(), "equivalent_model": np.ravel(b1)[:6].tolist(),
                       "default_operator": np.ravel(base)[:6].tolist()}, signature="custom-operator:" + name)


def gen_cases(ctx):
    rng = ctx.rng
    thorough = ctx.tier == "thorough"
    k = ctx.budget_scale
    cases = []
    for _ in range((60 if thorough else 10) * k):
        cases.append({"type": "opvalue", "family": "detection", "nc": int(rng.integers(1, 6)),
                      "npred": int(rng.integers(1, 7)), "nref": int(rng.integers(1, 4)), "n": int(rng.integers(1, 4)),
                      "single_vector": bool(rng.random() < 0.3), "case_seed": int(rng.integers(1 << 31))})
        cases.append({"type": "opvalue", "family": "segmentation", "n": int(rng.integers(1, 4)), "h": int(rng.integers(1, 6)),
                      "w": int(rng.integers(1, 6)), "c": int(rng.integers(1, 4)), "signed": bool(rng.random() < 0.5),
                      "case_seed": int(rng.integers(1 << 31))})
    wbn = list(wb_classes_names())
    refs = [{"by": "name", "which": 1}, {"by": "neg", "which": 1}, {"by": "index", "which": 1}, {"by": "name", "which": 0},
            {"by": "neg", "which": 0}]
    combos = [(c, mk, r) for c in wbn for mk in ("dense", "conv") for r in refs
              if not (c in ("GradCAM", "GradCAMPP") and mk == "dense")]
    if not thorough:
        idx = rng.permutation(len(combos))[: 26 * k]
        combos = [combos[i] for i in sorted(idx)]
        # make sure every class appears at least once in the quick tier
        for c in wbn:
            if not any(cc[0] == c for cc in combos):
                combos.append((c, "conv", refs[int(rng.integers(3))]))
    for c, mk, r in combos:
        cases.append({"type": "output_layer", "cls": c, "model": mk, "model_seed": int(rng.integers(2)), "ref": r,
                      "case_seed": int(rng.integers(1 << 31))})
    methods = wbn + ["Occlusion", "Rise", "Lime", "KernelShap", "Sobol", "Hsic", "Deletion", "Insertion"]  # MuFidelity draws its subsets inside a per-instance tf.function (not reproducible across instances); its operator plumbing is the shared ExplanationMetric constructor exercised by Deletion / Insertion
    for mth in methods:
        for _ in range(3 if thorough else 1):
            cases.append({"type": "custom_operator", "method": mth, "model_seed": int(rng.integers(2)),
                          "case_seed": int(rng.integers(1 << 31))})
    return cases


def wb_classes_names():
    return ["Saliency", "GradientInput", "IntegratedGradients", "SmoothGrad", "SquareGrad", "VarGrad", "DeconvNet",
            "GuidedBackprop", "GradCAM", "GradCAMPP"]


def run_case(ctx, d):
    t = d["type"]
    if t == "opvalue":
        run_opvalue(ctx, d)
    elif t == "output_layer":
        run_output_layer(ctx, d)
    elif t == "custom_operator":
        run_custom_operator(ctx, d)
    elif t == "table":
        run_table(ctx)


def run(ctx):
    run_table(ctx)
    for d in gen_cases(ctx):
        run_case(ctx, d)


def replay(ctx, r):
    run_case(ctx, r["case"] if "case" in r else r["first_disagreement"][0])
