"""C05 - perturbation attributions are spatially aligned with what the model uses.

Implementation: xplique Occlusion, SobolAttributionMethod, HsicAttributionMethod, Lime, KernelShap (and Rise
through the C09 machinery) on recording region-score models `f(x) = b + sum_{p in R} w_p x_p`, `w > 0`,
on non-square images.
Model: Lean `Align.*` (nearest-neighbour index model, GSA perturbation data flow, Sobol / HSIC
post_process layouts, Jansen indices, Lime gather / broadcast) and `Occl.explain`.
Deterministic clauses are compared exactly / in the tolerance lane with the model; "largest attribution
inside the region" is evaluated on the implementation as a predicate (ties allowed: the maximum over the
region equals the global maximum), for the sampled estimators only in configurations measured to be robust.
"""
import json
import os
from fractions import Fraction

import numpy as np

from common import enc, fr, VERIF

RULE = ("cases = (method in Occlusion / Sobol / HSIC / Lime / KernelShap / RISE, image shape with H != W from "
        "{6x10, 9x5, 5x8, 7x4, ...}, C in {1,3}, rectangle region at a corner / single row / single column, "
        "positive integer region weights, grid size 2..5 or patch / stride (also not dividing H, W) or segment "
        "blocks, sampler, estimator, perturbation function, batch size) from a seeded generator; each case runs "
        "the real explainer on a recording region-score model, compares the recorded perturbed inputs and the "
        "map layout with the Lean Align / Occlusion model and evaluates exact-zero and arg-max-in-region "
        "predicates on the returned map; distinct = distinct descriptor hash; non-trivial = the map is not constant")

SHAPES = [(6, 10), (9, 5), (5, 8), (7, 4), (4, 9), (10, 6)]


def nn(out, inn, i):
    """independent python copy of the nearest-neighbour index (used for region construction only)"""
    return min(((2 * i + 1) * inn) // (2 * out), inn - 1)


class RegionModel:
    """f(x) = bias + sum_{p in R} w_p x_p (all channels of the pixels of R), recording"""

    def __init__(self, rng, shape, rect, bias):
        h, w_, c = shape
        r0, r1, c0, c1 = rect
        self.shape = shape
        self.w = np.zeros(shape, dtype=np.int64)
        self.w[r0:r1, c0:c1, :] = rng.integers(1, 4, size=(r1 - r0, c1 - c0, c))
        self.bias = int(bias)
        self.rows, self.shapes, self.outs = [], [], []

    def __call__(self, x):
        x = np.asarray(x)
        self.shapes.append(tuple(x.shape))
        xf = np.array(x, dtype=np.float64).reshape(x.shape[0], -1)
        self.rows.append(xf)
        out = (self.bias + xf @ self.w.reshape(-1).astype(np.float64))[:, None].astype(np.float32)
        self.outs.append(out.astype(np.float64))
        return out

    def polys(self):
        return [{"const": self.bias, "lin": [int(v) for v in self.w.reshape(-1)], "quad": [], "cub": []}]


def in_rect(rect, i, j):
    r0, r1, c0, c1 = rect
    return r0 <= i < r1 and c0 <= j < c1


def argmax_in_region(m2, rect):
    """the largest attribution is attained inside the region (ties allowed)"""
    r0, r1, c0, c1 = rect
    if not np.all(np.isfinite(m2)):
        return False
    return bool(m2[r0:r1, c0:c1].max() >= m2.max())


def pixel_rects(rng, h, w_):
    """rectangles at every corner / single row / single column (pixel units)"""
    rh, rw = int(rng.integers(1, max(2, h // 2 + 1))), int(rng.integers(1, max(2, w_ // 2 + 1)))
    i, j = int(rng.integers(h)), int(rng.integers(w_))
    return {"corner-tl": (0, rh, 0, rw), "corner-tr": (0, rh, w_ - rw, w_), "corner-bl": (h - rh, h, 0, rw),
            "corner-br": (h - rh, h, w_ - rw, w_), "row": (i, i + 1, 0, w_), "col": (0, h, j, j + 1)}


def cell_rects(h, w_, gh, gw):
    """regions that are unions of grid cells (pixel rectangles): corners, one row / one column of cells"""
    def span(n, g, a, b):
        idx = [i for i in range(n) if a <= nn(n, g, i) < b]
        return (idx[0], idx[-1] + 1) if idx else None
    out = {}
    for name, (ra, rb, ca, cb) in {"corner-tl": (0, 1, 0, 1), "corner-tr": (0, 1, gw - 1, gw), "corner-bl": (gh - 1, gh, 0, 1),
                                   "corner-br": (gh - 1, gh, gw - 1, gw), "row-top": (0, 1, 0, gw), "row-bottom": (gh - 1, gh, 0, gw),
                                   "col-left": (0, gh, 0, 1), "col-right": (0, gh, gw - 1, gw)}.items():
        rs, cs = span(h, gh, ra, rb), span(w_, gw, ca, cb)
        if rs and cs:
            out[name] = (rs[0], rs[1], cs[0], cs[1])
    return out


# ------------------------------------------------------------------------------------------------
# Occlusion
# ------------------------------------------------------------------------------------------------
def run_occl(ctx, d):
    from xplique.attributions import Occlusion
    rng = np.random.default_rng(d["case_seed"])
    shape = tuple(d["shape"])
    h, w_, c = shape
    rect = tuple(d["rect"])
    model = RegionModel(rng, shape, rect, d["bias"])
    x = rng.integers(1, 4, size=(1,) + shape).astype(np.float32)
    y = np.ones((1, 1), np.float32)
    pa, pb = d["patch"]
    sa, sb = d["stride"]
    ok, out = ctx.impl_call(d, lambda: Occlusion(model, batch_size=d["bs"], patch_size=(pa, pb), patch_stride=(sa, sb),
                                                 occlusion_value=0.0)(x, y).numpy())
    if not ok:
        ctx.case(d, False)
        return
    good = ctx.check_prop("shape", tuple(out.shape) == (1, h, w_, 1), d, {"got": list(out.shape)})
    if not good:
        ctx.case(d, False)
        return
    m2 = out[0, :, :, 0]
    r = ctx.driver.call({"op": "occl", "geom": {"kind": "two", "a": h, "b": w_, "c": c, "pa": pa, "pb": pb, "sa": sa, "sb": sb},
                         "polys": model.polys(), "v": 0, "bs": d["bs"], "xs": enc(x.reshape(1, -1)), "ys": enc(y)})
    ctx.check_corr("occl_impl_model", m2.reshape(-1), r["impl"][0], d)
    # exact zeros: cells all of whose covering patches miss the region (hypothesis of occl_zero_far)
    r0, r1, c0, c1 = rect
    far = np.zeros((h, w_), bool)
    for i in range(h):
        for j in range(w_):
            far[i, j] = (i + pa <= r0) or (r1 + pa <= i + 1) or (j + pb <= c0) or (c1 + pb <= j + 1)
    ctx.count("occl_far_cells", "far", int(far.sum()))
    ctx.count("occl_far_cells", "near", int((~far).sum()))
    ctx.check_prop("occlusion-exact-zero-outside", bool(np.all(m2[far] == 0.0)), d,
                   {"nonzero_far": [[int(a), int(b), float(m2[a, b])] for a, b in zip(*np.nonzero(far & (m2 != 0)))][:5]})
    ctx.check_prop("occlusion-argmax-in-region", argmax_in_region(m2, rect), d,
                   {"argmax": [int(v) for v in np.unravel_index(np.argmax(m2), m2.shape)], "rect": list(rect)})
    ctx.count("occl_region_hit", "hit" if m2.max() > 0 else "no-patch-meets-region")
    ctx.case(d, bool(m2.max() > m2.min()))


# ------------------------------------------------------------------------------------------------
# Sobol / HSIC
# ------------------------------------------------------------------------------------------------
def gsa_objects(d):
    import xplique.attributions.global_sensitivity_analysis as G
    samp = getattr(G, d["sampler"])
    if d["method"] == "sobol":
        est = getattr(G, d["estimator"])()
        return samp(), est
    est = getattr(G, d["estimator"])()
    return samp(binary=d["binary"]), est


def blur_x0(x1, shape):
    import cv2
    x0 = cv2.blur(np.array(x1, copy=True), (10, 10))
    if x0.ndim == 2:
        x0 = x0[:, :, None]
    return x0.astype(np.float32)


def run_gsa(ctx, d):
    import tensorflow as tf
    from xplique.attributions import SobolAttributionMethod, HsicAttributionMethod
    rng = np.random.default_rng(d["case_seed"])
    shape = tuple(d["shape"])
    h, w_, c = shape
    g, nd, pf = d["g"], d["nd"], d["pf"]
    rect = tuple(d["rect"])
    model = RegionModel(rng, shape, rect, d["bias"])
    x = rng.integers(1, 4, size=(1,) + shape).astype(np.float32)
    y = np.ones((1, 1), np.float32)
    holder = {}

    def impl():
        sampler, est = gsa_objects(d)
        cls = SobolAttributionMethod if d["method"] == "sobol" else HsicAttributionMethod
        kw = {}
        if d["method"] == "hsic" and d.get("ebs"):
            kw["estimator_batch_size"] = int(d["ebs"])     # memory-saving option: grid cells processed in several batches
        ex = cls(model, grid_size=g, nb_design=nd, sampler=sampler, estimator=est, perturbation_function=pf,
                 batch_size=d["bs"], **kw)
        holder["ex"] = ex
        return ex(x, y).numpy()

    ok, out = ctx.impl_call(d, impl)
    if not ok:
        ctx.case(d, False)
        return
    ctx.count("gsa", f'{d["method"]}/{d["estimator"]}/{pf}')
    ctx.count("gsa_sampler", d["sampler"])
    good = ctx.check_prop("shape", tuple(out.shape) == (1, h, w_, 1), d, {"got": list(out.shape)})
    if not good:
        ctx.case(d, False)
        return
    m2 = out[0, :, :, 0]
    ex = holder["ex"]
    masks = np.array(ex.masks, dtype=np.float64)
    nrows = nd * (g * g + 2) if d["method"] == "sobol" else nd
    if tuple(masks.shape) != (nrows, g, g, 1):
        ctx.check_corr("gsa_mask_tensor_shape", list(masks.shape), [Fraction(v) for v in (nrows, g, g, 1)], d)
        ctx.case(d, False)
        return
    rows = masks.reshape(nrows, g * g)
    q = np.concatenate(model.rows, 0)
    ctx.check_prop("nb-queries", q.shape[0] == nrows, d, {"queries": int(q.shape[0]), "want": nrows})
    ctx.check_prop("calls_le_batch_size", max(s[0] for s in model.shapes) <= (d["bs"] or nrows), d)
    if q.shape[0] != nrows or any(tuple(s[1:]) != shape for s in model.shapes):
        ctx.check_prop("query-shape", False, d, {"shapes": [list(s) for s in model.shapes[:3]]})
        ctx.case(d, False)
        return
    # ---- perturbed inputs: nearest-neighbour upsampling of the public design + pointwise perturbation
    x0 = blur_x0(x[0], shape) if pf == "blurring" else np.zeros(shape, np.float32)
    sub = np.arange(nrows) if nrows <= 160 else np.unique(np.concatenate([np.arange(48), rng.integers(0, nrows, 112)]))
    pert = ctx.driver.call({"op": "align_gsa", "g": g, "H": h, "W": w_, "C": c, "pf": pf, "sigma": 1,
                            "x": enc(x.reshape(-1)), "x0": enc(x0.reshape(-1)), "rows": enc(rows[sub])})
    ctx.check_corr("gsa_perturbed_inputs", q[sub].reshape(-1), [v for r_ in pert["pert"] for v in r_], d)
    cells = np.array([int(v) for v in pert["cells"]]).reshape(h, w_)
    # ---- the map is the bicubic resize of the estimator's grid on the recorded outputs
    outs = np.concatenate(model.outs, 0)[:, 0].astype(np.float32)
    pre = np.array(ex.estimator(ex.masks, tf.constant(outs), nd))
    if tuple(pre.shape) != (g, g, 1):
        ctx.check_corr("gsa_estimator_grid_shape", list(pre.shape), [Fraction(g), Fraction(g), Fraction(1)], d)
        ctx.case(d, False)
        return
    finite = bool(np.all(np.isfinite(m2)))
    ctx.check_prop("map-finite", finite, d, {"nan": int(np.isnan(m2).sum())},
                   signature=("hsic rbf output-kernel width = median(outputs) = 0" if d["method"] == "hsic" and np.median(outs) == 0
                              else None))
    if finite:
        resized = tf.image.resize(pre, (h, w_), method=tf.image.ResizeMethod.BICUBIC).numpy()[:, :, 0]
        ctx.check_corr("gsa_map_is_resized_estimator_grid", m2.reshape(-1), [fr(v) for v in resized.reshape(-1)], d,
                       rtol=1e-4, atol=1e-5, scale=max(1.0, float(np.abs(resized).max())))
    # cells whose pixels all lie outside the region / meet the region (model's nearest-neighbour cells)
    meets = np.zeros(g * g, bool)
    for i in range(h):
        for j in range(w_):
            if in_rect(rect, i, j):
                meets[cells[i, j]] = True
    pre_flat = pre.reshape(-1)
    if d["method"] == "sobol":
        a_blk, b_blk = rows[:nd], rows[nd:2 * nd]
        exp_c = np.concatenate([np.concatenate([a_blk[:, :i], b_blk[:, i:i + 1], a_blk[:, i + 1:]], 1) for i in range(g * g)], 0)
        ctx.check_corr("gsa_replicated_design", rows[2 * nd:].reshape(-1), [fr(v) for v in exp_c.reshape(-1)], d)
        if d["estimator"] == "JansenEstimator":
            st = ctx.driver.call({"op": "align_sobol", "g": g, "H": h, "W": w_, "C": c, "pf": pf, "sigma": 1,
                                  "x": enc(x.reshape(-1)), "x0": enc(x0.reshape(-1)), "A": enc(a_blk), "B": enc(b_blk),
                                  "polys": model.polys(), "y": [1]})["stis"]
            ctx.check_corr("sobol_jansen_model", pre_flat, st, d, rtol=2e-4, atol=2e-5)
            ctx.check_prop("sobol-exact-zero-before-upsampling", bool(np.all(pre_flat[~meets] == 0.0)) or not finite, d,
                           {"nonzero_inert_cells": [[int(k), float(pre_flat[k])] for k in np.nonzero((~meets) & (pre_flat != 0))[0]][:5]})
    # ---- statistical clause: largest attribution inside the region (only robust configurations)
    if d.get("argmax") and finite:
        if d["method"] == "sobol" and d["estimator"] == "JansenEstimator":
            ya = outs[:nd]
            seen = any(np.any(outs[2 * nd + k * nd: 2 * nd + (k + 1) * nd] != ya) for k in np.nonzero(meets)[0])
        else:
            seen = True
        if seen:
            ctx.count("argmax_checked", d["method"])
            ctx.check_prop(f'{d["method"]}-argmax-in-region', argmax_in_region(m2, rect), d,
                           {"argmax": [int(v) for v in np.unravel_index(np.argmax(m2), m2.shape)], "rect": list(rect)})
        else:
            ctx.count("argmax_skipped", "design-does-not-move-region-cells")
    ctx.case(d, finite and bool(m2.max() > m2.min()))


def run_layout(ctx, d):
    """estimator-level deterministic ties: post_process layouts and the HSIC dimension of a cell"""
    import tensorflow as tf
    import xplique.attributions.global_sensitivity_analysis as G
    g, nd = d["g"], d["nd"]
    rng = np.random.default_rng(d["case_seed"])
    scores = rng.integers(-9, 10, size=g * g).astype(np.float32)
    masks = np.zeros((nd, g, g, 1), np.float32)
    lay = ctx.driver.call({"op": "align_post", "g": g, "scores": enc(scores)})
    ok, res = ctx.impl_call(d, lambda: (np.array(G.JansenEstimator.post_process(list(scores), masks)),
                                        np.array(G.BinaryEstimator.post_process(list(scores), masks))))
    if not ok:
        ctx.case(d, False)
        return
    ctx.check_corr("sobol_post_process_layout", res[0].reshape(-1), lay["sobol"], d)
    ctx.check_corr("hsic_post_process_layout", res[1].reshape(-1), lay["hsic"], d)
    # HSIC: outputs equal to the samples of ONE mask cell -> that dimension has the largest raw score,
    # and the reported grid has its maximum in that cell
    m = G.TFSobolSequence(binary=True)(g * g, nd).reshape((-1, g, g, 1)).astype(np.float32)
    r_, c_ = d["cell"]
    est = G.BinaryEstimator()
    yv = (1.0 + 2.0 * m[:, r_, c_, 0]).astype(np.float32)

    def hs():
        yt = tf.reshape(tf.constant(yv), (nd, 1))
        l_mat = est.output_kernel_func(yt, tf.transpose(yt))
        raw = np.array(est.estimator(tf.constant(m), l_mat, est.masks_dim(m), nd))
        return raw, np.array(est(tf.constant(m), tf.constant(yv), nd))
    ok, res = ctx.impl_call(d, hs)
    if ok:
        raw, grid = res
        ctx.check_corr("hsic_dim_of_cell", [int(np.argmax(raw))], [lay["hsic_dims"][r_ * g + c_]], d)
        ctx.check_prop("hsic-estimator-reports-driving-cell", int(np.argmax(grid[:, :, 0])) == r_ * g + c_, d,
                       {"argmax": int(np.argmax(grid[:, :, 0])), "cell": [r_, c_]})
    # Sobol (Jansen): outputs depending on ONE mask cell -> the reported grid is zero elsewhere
    ms = G.TFSobolSequenceRS()(g * g, 8).reshape((-1, g, g, 1)).astype(np.float32)
    ok, grid = ctx.impl_call(d, lambda: np.array(G.JansenEstimator()(ms, (3.0 * ms[:, r_, c_, 0] + 1.0), 8)))
    if ok:
        nz = np.nonzero(grid[:, :, 0].reshape(-1))[0].tolist()
        ctx.check_prop("sobol-estimator-reports-driving-cell", nz in ([r_ * g + c_], []), d, {"nonzero": nz, "cell": [r_, c_]})
    ctx.case(d, True)


# ------------------------------------------------------------------------------------------------
# Lime / KernelShap
# ------------------------------------------------------------------------------------------------
def run_lime(ctx, d):
    import tensorflow as tf
    from sklearn import linear_model
    from xplique.attributions import Lime, KernelShap
    rng = np.random.default_rng(d["case_seed"])
    shape = tuple(d["shape"])
    h, w_, c = shape
    rect = tuple(d["rect"])
    bh, bw = d["block"]
    seg = (np.arange(h)[:, None] // bh) * ((w_ + bw - 1) // bw) + (np.arange(w_)[None, :] // bw)
    nseg = int(seg.max()) + 1
    # segment ids need not follow the raster scan: column-major, reversed or shuffled numberings of the same blocks
    num = d.get("numbering", "row")
    if num != "row":
        ids = np.arange(nseg)
        gw_, gh_ = (w_ + bw - 1) // bw, (h + bh - 1) // bh
        perm = {"col": (ids % gw_) * gh_ + ids // gw_, "rev": nseg - 1 - ids}.get(num)
        if perm is None:
            perm = np.random.default_rng(d["case_seed"] + 7).permutation(nseg)
        seg = perm[seg]
    ctx.count("lime_numbering", num)
    model = RegionModel(rng, shape, rect, d["bias"])
    x = rng.integers(1, 4, size=(1,) + shape).astype(np.float32)
    y = np.ones((1, 1), np.float32)
    ref = np.array(d["ref"], dtype=np.float32) if d["ref"] is not None else None
    log = []
    holder = {}

    def impl():
        tf.random.set_seed(d["case_seed"] % (1 << 30))
        mapf = lambda inp: tf.constant(seg, tf.int32)   # noqa: E731
        if d["method"] == "kshap":
            ex = KernelShap(model, batch_size=d["bs"], map_to_interpret_space=mapf, nb_samples=d["nb"], ref_value=ref)
        else:
            ex = Lime(model, batch_size=d["bs"], map_to_interpret_space=mapf, nb_samples=d["nb"], ref_value=ref,
                      interpretable_model=linear_model.Ridge(alpha=1.0), kernel_width=45.0)
        inner = ex.pertub_func

        def wrapped(nf, ns):
            s = inner(nf, ns)
            log.append(np.array(s))
            return s
        ex.pertub_func = wrapped
        holder["ex"] = ex
        return ex(x, y).numpy()

    ok, out = ctx.impl_call(d, impl)
    if not ok:
        ctx.case(d, False)
        return
    ctx.count("lime", d["method"])
    good = ctx.check_prop("shape", tuple(out.shape) == (1, h, w_, 1), d, {"got": list(out.shape)})
    if not good or len(log) != 1 or tuple(log[0].shape) != (d["nb"], nseg):
        if good:
            ctx.check_corr("lime_samples_shape", [len(log)] + (list(log[0].shape) if log else []),
                           [Fraction(1), Fraction(d["nb"]), Fraction(nseg)], d)
        ctx.case(d, False)
        return
    m2 = out[0, :, :, 0]
    ex = holder["ex"]
    refv = np.array(ex.ref_value, dtype=np.float64).reshape(-1)
    if refv.size == 1 and c > 1:
        refv = np.repeat(refv, c)
    q = np.concatenate(model.rows, 0)
    ctx.check_prop("nb-queries", q.shape[0] == d["nb"], d, {"queries": int(q.shape[0])})
    if q.shape[0] != d["nb"]:
        ctx.case(d, False)
        return
    coef = np.array(ex.interpretable_model.coef_, dtype=np.float32).reshape(-1)
    r = ctx.driver.call({"op": "align_lime", "chan": c, "x": enc(x.reshape(-1)), "ref": enc(refv), "mapping": [int(v) for v in seg.reshape(-1)],
                         "samples": enc(log[0].astype(np.int64)), "coef": enc(coef)})
    ctx.check_corr("lime_perturbed_inputs", q.reshape(-1), [v for r_ in r["pert"] for v in r_], d)
    ctx.check_corr("lime_broadcast", m2.reshape(-1), r["bcast"], d)
    inside = np.zeros((h, w_), bool)
    inside[rect[0]:rect[1], rect[2]:rect[3]] = True
    scale = float(np.abs(m2).max()) or 1.0
    if d["method"] == "kshap":
        ctx.check_prop("kernelshap-zero-for-ignored-features", bool(np.abs(m2[~inside]).max(initial=0.0) <= 1e-4 * scale), d,
                       {"max_outside": float(np.abs(m2[~inside]).max(initial=0.0)), "scale": scale})
    ctx.check_prop(f'{d["method"]}-argmax-in-region', argmax_in_region(m2, rect), d,
                   {"argmax": [int(v) for v in np.unravel_index(np.argmax(m2), m2.shape)], "rect": list(rect)})
    ctx.case(d, bool(m2.max() > m2.min()))


# ------------------------------------------------------------------------------------------------
# RISE (alignment through the C09 machinery; arg-max with many samples in the thorough tier only)
# ------------------------------------------------------------------------------------------------
def run_rise_argmax(ctx, d):
    import tensorflow as tf
    from xplique.attributions import Rise
    rng = np.random.default_rng(d["case_seed"])
    shape = tuple(d["shape"])
    rect = tuple(d["rect"])
    model = RegionModel(rng, shape, rect, d["bias"])
    x = rng.integers(1, 4, size=(1,) + shape).astype(np.float32)
    y = np.ones((1, 1), np.float32)

    def impl():
        tf.random.set_seed(d["case_seed"] % (1 << 30))
        return Rise(model, batch_size=500, nb_samples=d["nb"], grid_size=tuple(d["grid"]), preservation_probability=0.5)(x, y).numpy()
    ok, out = ctx.impl_call(d, impl)
    if not ok:
        ctx.case(d, False)
        return
    m2 = out[0, :, :, 0]
    ctx.count("rise_argmax", "checked")
    ctx.check_prop("rise-argmax-in-region", argmax_in_region(m2, rect), d,
                   {"argmax": [int(v) for v in np.unravel_index(np.argmax(m2), m2.shape)], "rect": list(rect)})
    ctx.case(d, True)


def run_case(ctx, d):
    m = d["method"]
    if m == "occl":
        run_occl(ctx, d)
    elif m in ("sobol", "hsic"):
        run_gsa(ctx, d)
    elif m == "layout":
        run_layout(ctx, d)
    elif m in ("lime", "kshap"):
        run_lime(ctx, d)
    elif m == "rise":
        from props import c09
        c09.run_case(ctx, d["c09"])
    elif m == "rise-argmax":
        run_rise_argmax(ctx, d)
    else:
        raise ValueError(m)


def gen_cases(ctx):
    rng = ctx.rng
    thorough = ctx.tier == "thorough"
    k = (12 if thorough else 2) * ctx.budget_scale
    cases = []

    def seed():
        return int(rng.integers(1 << 31))

    def pick(seq):
        return seq[int(rng.integers(len(seq)))]

    # Occlusion: pixel rectangles, patches / strides also not dividing H, W
    for _ in range(40 * k):
        h, w_ = pick(SHAPES)
        c = pick([1, 3])
        name, rect = pick(list(pixel_rects(rng, h, w_).items()))
        cases.append({"method": "occl", "shape": [h, w_, c], "rect": list(rect), "region": name, "bias": int(rng.integers(0, 4)),
                      "patch": [int(rng.integers(1, h + 1)), int(rng.integers(1, w_ + 1))],
                      "stride": [int(rng.integers(1, h + 1)), int(rng.integers(1, w_ + 1))],
                      "bs": pick([1, 3, 7, 64]), "case_seed": seed()})
    # Sobol: Jansen with every sampler / perturbation function; the other estimators
    rs_samplers = ["TFSobolSequenceRS", "ScipySobolSequenceRS", "HaltonSequenceRS", "LatinHypercubeRS"]
    for _ in range(22 * k):
        h, w_ = pick(SHAPES[:4])
        c = pick([1, 3])
        g = int(rng.integers(2, 6))
        name, rect = pick(list(cell_rects(h, w_, g, g).items()))
        cases.append({"method": "sobol", "estimator": "JansenEstimator", "sampler": pick(rs_samplers), "pf": pick(["inpainting", "blurring", "amplitude"]),
                      "shape": [h, w_, c], "g": g, "nd": pick([4, 8, 16]), "rect": list(rect), "region": name,
                      "bias": int(rng.integers(0, 4)), "bs": pick([7, 50, 256, None]), "argmax": True, "case_seed": seed()})
    for _ in range(8 * k):
        h, w_ = pick(SHAPES[:4])
        c = pick([1, 3])
        g = int(rng.integers(2, 5))
        name, rect = pick(list(cell_rects(h, w_, g, g).items()))
        est = pick(["HommaEstimator", "JanonEstimator", "SaltelliEstimator", "GlenEstimator"])
        robust = est != "GlenEstimator"
        cases.append({"method": "sobol", "estimator": est, "sampler": pick(rs_samplers[:3]) if robust else pick(rs_samplers),
                      "pf": "inpainting" if robust else pick(["inpainting", "blurring", "amplitude"]),
                      "shape": [h, w_, c], "g": g, "nd": 64 if robust else 8, "rect": list(rect), "region": name,
                      "bias": int(rng.integers(1, 6)), "bs": 256, "argmax": robust, "case_seed": seed()})
    # HSIC: arg-max only with the Sobol-sequence samplers, inpainting, nb_design = 128
    for _ in range(14 * k):
        h, w_ = pick(SHAPES[:4])
        c = pick([1, 3])
        g = int(rng.integers(2, 6))
        name, rect = pick(list(cell_rects(h, w_, g, g).items()))
        est = pick(["BinaryEstimator", "RbfEstimator", "SobolevEstimator"])
        robust = rng.random() < 0.7
        cases.append({"method": "hsic", "estimator": est,
                      "sampler": pick(["TFSobolSequence", "ScipySobolSequence"]) if robust else pick(["HaltonSequence", "LatinHypercube", "TFSobolSequence"]),
                      "binary": True if est == "BinaryEstimator" else bool(rng.random() < 0.3),
                      "pf": "inpainting" if robust else pick(["blurring", "amplitude"]),
                      "shape": [h, w_, c], "g": g, "nd": 128 if robust else pick([16, 32]), "rect": list(rect), "region": name,
                      "bias": int(rng.integers(1, 6)), "bs": 256, "argmax": robust,
                      "ebs": (None if rng.random() < 0.4 else int(rng.integers(1, g * g))), "case_seed": seed()})
    # HSIC degenerate stream: the score is exactly zero on at least half of the designs
    for _ in range(2 * k):
        h, w_ = pick(SHAPES[:2])
        name, rect = pick([kv for kv in cell_rects(h, w_, 3, 3).items() if kv[0].startswith("corner")])
        cases.append({"method": "hsic", "estimator": "BinaryEstimator", "sampler": "TFSobolSequence", "binary": True, "pf": "inpainting",
                      "shape": [h, w_, 1], "g": 3, "nd": 64, "rect": list(rect), "region": name, "bias": 0, "bs": 256,
                      "argmax": True, "case_seed": seed()})
    # estimator-level layout ties
    for _ in range(6 * k):
        g = int(rng.integers(2, 6))
        cases.append({"method": "layout", "g": g, "nd": 64, "cell": [int(rng.integers(g)), int(rng.integers(g))], "case_seed": seed()})
    # Lime / KernelShap: block segments (also not dividing H, W), regions = unions of segments
    for _ in range(24 * k):
        h, w_ = pick(SHAPES)
        c = pick([1, 3])
        bh, bw = int(rng.integers(1, max(2, h // 2) + 1)), int(rng.integers(1, max(2, w_ // 2) + 1))
        gh, gw = (h + bh - 1) // bh, (w_ + bw - 1) // bw
        if gh * gw < 2:
            continue
        regs = {"corner-tl": (0, min(bh, h), 0, min(bw, w_)), "corner-br": ((gh - 1) * bh, h, (gw - 1) * bw, w_),
                "corner-tr": (0, min(bh, h), (gw - 1) * bw, w_), "corner-bl": ((gh - 1) * bh, h, 0, min(bw, w_)),
                "row": (pick(range(gh)),) * 2, "col": (pick(range(gw)),) * 2}
        name = pick(list(regs))
        if name == "row":
            i = regs["row"][0]
            rect = (i * bh, min((i + 1) * bh, h), 0, w_)
        elif name == "col":
            j = regs["col"][0]
            rect = (0, h, j * bw, min((j + 1) * bw, w_))
        else:
            rect = regs[name]
        if (rect[1] - rect[0]) * (rect[3] - rect[2]) == h * w_:
            continue
        method = pick(["lime", "kshap"])
        nseg = gh * gw
        cases.append({"method": method, "shape": [h, w_, c], "block": [bh, bw], "rect": list(rect), "region": name,
                      "bias": int(rng.integers(0, 4)), "nb": int(max(60, 12 * nseg)) if method == "kshap" else int(max(200, 12 * nseg)),
                      "ref": None if rng.random() < 0.5 else [0.0] * c, "bs": pick([None, 16, 50]),
                      "numbering": pick(["row", "col", "rev", "shuf"]), "case_seed": seed()})
    # RISE: mask alignment (crop window of the bilinear upsample) on non-square images via the C09 case runner
    for _ in range(8 * k):
        h, w_ = pick(SHAPES)
        cases.append({"method": "rise", "c09": {"kind": "img", "shape": [h, w_, pick([1, 3])], "grid": [int(rng.integers(1, 6)), int(rng.integers(1, 6))],
                                                 "nb": int(rng.integers(2, 13)), "bs": pick([None, 3, 5]), "N": int(pick([1, 2, 3])), "p": 0.5, "v": 0.0,
                                                 "case_seed": seed()}})
    if thorough:
        for _ in range(12):
            h, w_ = pick(SHAPES[:2])
            name, rect = pick(list(cell_rects(h, w_, 2, 2).items())[:4])
            cases.append({"method": "rise-argmax", "shape": [h, w_, pick([1, 3])], "rect": list(rect), "region": name, "bias": 1,
                          "grid": [h, w_], "nb": 4000, "case_seed": seed()})
    return cases


def corpus_cases():
    p = os.path.join(VERIF, "corpus", "C05")
    out = []
    if os.path.isdir(p):
        for fn in sorted(os.listdir(p)):
            if fn.endswith(".json"):
                out.append(json.load(open(os.path.join(p, fn))))
    return out


def run(ctx):
    for d in corpus_cases() + gen_cases(ctx):
        ctx.count("method", d["method"])
        if "region" in d:
            ctx.count("region", d["region"])
        run_case(ctx, d)


def replay(ctx, r):
    run_case(ctx, r["case"] if "case" in r else r["first_disagreement"][0])
