"""C03 - batching is transparent: batch_size never changes a deterministic result.

Implementation: every method of the property's list run with batch sizes 1..N*max(steps,nb_samples)+1 and
None; deterministic methods also with permuted / subset / duplicated inputs.  The Lean side (general batching
theorems + each method's *_bs_indep theorem) is audited by the lean stage; the method models themselves are
tied to the code by their own property checks.
"""
import numpy as np

from common import PolyModel

RULE = ("cases = (method, data kind, N in 1..4, a sample of batch sizes from {1..N*max(steps,nb_samples)+1} always "
        "including 1, a non-divisor, one below steps/nb_samples and one above every workload); each case compares "
        "explain/evaluate under every sampled batch size with batch_size=None, checks for black-box methods that "
        "no model call exceeds the batch size, and for deterministic methods that permuting / subsetting / "
        "duplicating the inputs permutes / subsets / duplicates the explanations; distinct = descriptor hash; "
        "non-trivial = N >= 2 or a batch size below the inner workload, and a non-constant result")

WB = ["Saliency", "GradientInput", "IntegratedGradients", "SmoothGrad", "SquareGrad", "VarGrad", "DeconvNet",
      "GuidedBackprop", "GradCAM", "GradCAMPP"]
BB = ["Occlusion", "Sobol", "Hsic", "HsicEstimatorBatch", "Lime", "LimeCosine", "KernelShap"]
MT = ["Deletion", "Insertion", "MuFidelity"]
IMG_ONLY = {"GradCAM", "GradCAMPP", "Sobol", "Hsic", "HsicEstimatorBatch"}
DETERMINISTIC = set(WB) | {"Occlusion", "Sobol", "Hsic", "HsicEstimatorBatch", "Lime", "LimeCosine"}
_MODELS = {}


def keras_model(tf, kind, shape, seed):
    key = (kind, tuple(shape), seed)
    if key in _MODELS:
        return _MODELS[key]
    rng = np.random.default_rng(seed)
    inp = tf.keras.Input(tuple(shape))
    if kind == "img":
        c = tf.keras.layers.Conv2D(2, (2, 2), padding="same", activation="relu")(inp)
        f = tf.keras.layers.Flatten()(tf.keras.layers.ReLU()(c))
    elif len(shape) > 1:
        f = tf.keras.layers.Flatten()(inp)
    else:
        f = inp
    h = tf.keras.layers.Dense(4, activation="relu")(f)
    out = tf.keras.layers.Dense(2)(h)
    m = tf.keras.Model(inp, out)
    for v in m.trainable_variables:
        v.assign((rng.integers(-4, 5, size=v.shape) / 4.0).astype(np.float32))
    _MODELS[key] = m
    return m


def lime_pertub(nf, ns):
    import tensorflow as tf
    nf = int(np.asarray(nf).reshape(-1)[0])
    r = np.random.RandomState(777)
    s = (r.rand(int(ns), nf) < 0.5).astype(np.int32)
    s[0, :] = 1
    return tf.constant(s)


def workload(name, n):
    return {"IntegratedGradients": 4, "SmoothGrad": 3, "SquareGrad": 3, "VarGrad": 3, "Lime": 12, "LimeCosine": 12, "KernelShap": 40,
            "Sobol": 4 * 6, "Hsic": 8, "HsicEstimatorBatch": 8, "MuFidelity": 8, "Deletion": 1, "Insertion": 1,
            "Occlusion": 6}.get(name, 1) * n


def build(name, model, bs, shape):
    from xplique import attributions as A
    if name in ("Saliency", "GradientInput", "DeconvNet", "GuidedBackprop", "GradCAM", "GradCAMPP"):
        return getattr(A, name)(model, batch_size=bs)
    if name == "IntegratedGradients":
        return A.IntegratedGradients(model, batch_size=bs, steps=4, baseline_value=-0.5)
    if name in ("SmoothGrad", "SquareGrad", "VarGrad"):
        return getattr(A, name)(model, batch_size=bs, nb_samples=3, noise=0.0)
    if name == "Occlusion":
        p = 2 if len(shape) == 3 else 1
        return A.Occlusion(model, batch_size=bs, patch_size=p, patch_stride=p)
    if name == "Sobol":
        return A.SobolAttributionMethod(model, grid_size=2, nb_design=4, batch_size=bs)
    if name == "Hsic":
        return A.HsicAttributionMethod(model, grid_size=2, nb_design=8, batch_size=bs)
    if name == "HsicEstimatorBatch":
        return A.HsicAttributionMethod(model, grid_size=2, nb_design=8, batch_size=64, estimator_batch_size=bs)
    if name == "Lime":
        return A.Lime(model, batch_size=bs, nb_samples=12, pertub_func=lime_pertub,
                      map_to_interpret_space=None if len(shape) != 3 else (lambda inp: _grid_map(shape)))
    if name == "LimeCosine":
        return A.Lime(model, batch_size=bs, nb_samples=12, pertub_func=lime_pertub, distance_mode="cosine", kernel_width=0.5,
                      map_to_interpret_space=None if len(shape) != 3 else (lambda inp: _grid_map(shape)))
    if name == "KernelShap":
        return A.KernelShap(model, batch_size=bs, nb_samples=40,
                            map_to_interpret_space=None if len(shape) != 3 else (lambda inp: _grid_map(shape)))
    raise ValueError(name)


def _grid_map(shape):
    import tensorflow as tf
    h, w = shape[0], shape[1]
    m = (np.arange(h)[:, None] // 3) * ((w + 2) // 3) + (np.arange(w)[None, :] // 3)
    return tf.constant(m.astype(np.int32))


def run_case(ctx, d):
    import tensorflow as tf
    from xplique import metrics as M
    rng = np.random.default_rng(d["case_seed"])
    name, kind, shape, n = d["method"], d["kind"], tuple(d["shape"]), d["N"]
    nflat = int(np.prod(shape))
    x = (rng.integers(-4, 5, size=(n,) + shape) / 4.0).astype(np.float32)
    for i in range(n):                       # make samples pairwise different (permutation must be visible)
        x[i].reshape(-1)[i % nflat] += 0.5 + i
    y = np.eye(2, dtype=np.float32)[rng.integers(2, size=n)] * rng.choice([1.0, -1.0, 2.0])
    y = y.astype(np.float32)
    if name in WB:
        model = keras_model(tf, kind, shape, d["model_seed"])
    else:
        additive = name in ("MuFidelity", "KernelShap")
        model = PolyModel(np.random.default_rng(d["model_seed"]), nflat, nc=2, quad=0 if additive else 3)
    extra = {}
    if name in ("Lime", "LimeCosine", "KernelShap") and kind == "img":
        extra["ref_value"] = np.zeros(shape[-1], np.float32)

    def seeded(fn):
        tf.random.set_seed(d["case_seed"] % 983)
        np.random.seed(d["case_seed"] % 983)
        return fn()

    if name in MT:
        if name == "MuFidelity":
            lin = model.lin.astype(np.float64)
            cls = np.argmax(np.abs(y), 1)
            e = np.stack([x[i].reshape(-1) * lin[cls[i]] * np.sign(y[i, cls[i]]) for i in range(n)]).reshape((n,) + shape)
            if kind == "img":
                e = e.sum(-1, keepdims=True)
            expl = e.astype(np.float32)
        else:
            es = (n,) + (shape[:2] + (1,) if kind == "img" else shape)
            expl = (rng.integers(-8, 9, size=es) / 8.0).astype(np.float32) + np.linspace(0, 0.1, int(np.prod(es))).reshape(es).astype(np.float32)

        def run(bs, xs=x, ys=y, ex=expl):
            if name == "MuFidelity":
                mt = M.MuFidelity(model, xs, ys, batch_size=bs, nb_samples=8, grid_size=None if kind != "img" else 2, subset_percent=0.4)
            else:
                mt = getattr(M, name)(model, xs, ys, batch_size=bs, steps=4)
            return np.asarray([mt(ex)], dtype=np.float64)
    else:
        def run(bs, xs=x, ys=y):
            e = build(name, model, bs, shape)
            for k_, v_ in extra.items():
                setattr(e, k_, v_)
            return e(xs, ys).numpy()

    ok, ref = ctx.impl_call(d, lambda: seeded(lambda: run(None)), signature="batch_size=None")
    if not ok:
        ctx.case(d, False)
        return
    wl = workload(name, n)
    ctx.case(d, (n >= 2 or min(d["bs"]) < wl) and float(np.ptp(ref)) > 0 or name == "MuFidelity")
    ctx.count("method", name)
    tol = dict(rtol=2e-4, atol=2e-5) if name in ("KernelShap", "Lime", "LimeCosine", "MuFidelity", "Hsic", "HsicEstimatorBatch", "Sobol") else dict(rtol=1e-5, atol=1e-6)
    for bs in d["bs"]:
        if isinstance(model, PolyModel):
            model.calls = []
        ok, out = ctx.impl_call(d, lambda: seeded(lambda: run(bs)), signature=f"batch_size={bs}")
        if not ok:
            continue
        ctx.count("bs_vs_workload", "bs<workload" if bs < wl else ("bs==workload" if bs == wl else "bs>workload"))
        ctx.check_prop("batch-size-transparent", out.shape == ref.shape and bool(np.allclose(out, ref, equal_nan=True, **tol)), d,
                       {"bs": bs, "with_bs": np.ravel(out)[:6].tolist(), "none": np.ravel(ref)[:6].tolist(),
                        "maxdiff": float(np.max(np.abs(out - ref))) if out.shape == ref.shape else None},
                       signature="bs:" + name)
        if isinstance(model, PolyModel) and name != "HsicEstimatorBatch" and model.calls:
            ctx.check_prop("calls-bounded-by-batch-size", max(model.calls) <= bs, d, {"bs": bs, "max_call": max(model.calls)})
    if name in DETERMINISTIC and name not in MT and n >= 2:
        bs = d["bs"][0]
        perm = rng.permutation(n)
        ok, out = ctx.impl_call(d, lambda: seeded(lambda: run(bs, x[perm], y[perm])), signature="permuted")
        if ok:
            ctx.check_prop("permutation-equivariant", bool(np.allclose(out, ref[perm], equal_nan=True, **tol)), d, {"perm": perm.tolist()})
        sub = np.sort(rng.permutation(n)[: max(1, n - 1)])
        ok, out = ctx.impl_call(d, lambda: seeded(lambda: run(bs, x[sub], y[sub])), signature="subset")
        if ok:
            ctx.check_prop("subset-equivariant", bool(np.allclose(out, ref[sub], equal_nan=True, **tol)), d, {"subset": sub.tolist()})
        dup = np.concatenate([np.arange(n), [int(rng.integers(n))]])
        ok, out = ctx.impl_call(d, lambda: seeded(lambda: run(bs, x[dup], y[dup])), signature="duplicated")
        if ok:
            ctx.check_prop("duplication-equivariant", bool(np.allclose(out, ref[dup], equal_nan=True, **tol)), d, {"dup": dup.tolist()})


def gen_cases(ctx):
    rng = ctx.rng
    thorough = ctx.tier == "thorough"
    shapes = {"tab": [(5,), (3,)], "ts": [(4, 3)], "img": [(5, 6, 2), (4, 5, 1), (6, 4, 3)]}
    cases = []
    reps = (5 if thorough else 1) * ctx.budget_scale
    for name in WB + BB + MT:
        for r in range(reps * 2):
            kind = "img" if name in IMG_ONLY else ["tab", "img", "ts"][(r + int(rng.integers(3))) % 3]
            shape = shapes[kind][int(rng.integers(len(shapes[kind])))]
            n = int(rng.integers(1, 5))
            wl = workload(name, n)
            pool = sorted({1, 2, 3, max(1, wl - 1), wl, wl + 1, int(rng.integers(1, wl + 2)), int(rng.integers(1, wl + 2))})
            k = len(pool) if thorough else min(4, len(pool))
            bs = sorted({1, wl + 1} | set(int(v) for v in rng.choice(pool, size=k, replace=False)))[: (len(pool) if thorough else 5)]
            if name == "HsicEstimatorBatch":
                bs = [1, 2, 4, 7]
            cases.append({"method": name, "kind": kind, "shape": list(shape), "N": n, "bs": bs,
                          "model_seed": int(rng.integers(100)), "case_seed": int(rng.integers(1 << 31))})
    return cases


def run(ctx):
    for d in gen_cases(ctx):
        run_case(ctx, d)


def replay(ctx, r):
    run_case(ctx, r["case"] if "case" in r else r["first_disagreement"][0])
