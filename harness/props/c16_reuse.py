"""Extra case families for C16 / C17 added after seeded changes were missed:

* reuse: ONE explainer object is called several times with the same number of queries (and unchanged k); every
  result is validated against an independent brute-force oracle, and the results of EARLIER calls are re-read after
  the later calls (they must not be overwritten in place: "the returned distances are the true distances").
* cosine-scale: the cosine distance is scale invariant, so tiny-magnitude (projected) vectors must give the
  distances / neighbours of the unscaled ones.
"""
import numpy as np


def l1(a, b):
    return np.abs(a[:, None, :] - b[None, :, :]).sum(-1)


def topk_sorted(dmat, k, admissible=None):
    """row-wise sorted k smallest (inf-filled) of the admissible entries"""
    out = np.full((dmat.shape[0], k), np.inf)
    for i in range(dmat.shape[0]):
        row = dmat[i] if admissible is None else np.where(admissible[i], dmat[i], np.inf)
        s = np.sort(row)[:k]
        out[i, :len(s)] = s
    return out


def as_np(v):
    return v.numpy() if hasattr(v, "numpy") else np.asarray(v)


def run_reuse_case(ctx, d):
    """d: {family:'reuse', method, N, dim, n, k, bs, calls, case_seed}"""
    import tensorflow as tf  # noqa: F401
    from xplique import example_based as EB
    rng = np.random.default_rng(d["case_seed"])
    N, dim, n, k, bs = d["N"], d["dim"], d["n"], d["k"], d["bs"]
    nc = 3
    X = rng.integers(-4, 5, size=(N, dim)).astype(np.float32)
    cls = rng.integers(nc, size=N)
    cls[:nc] = np.arange(nc)[: min(nc, N)]
    T = np.eye(nc, dtype=np.float32)[cls]
    method = d["method"]

    def build():
        if method == "similar":
            return EB.SimilarExamples(X, labels_dataset=cls.astype(np.float32)[:, None], k=k, batch_size=bs,
                                      distance="manhattan", case_returns=["distances", "examples", "labels"])
        if method == "naive":
            return EB.NaiveCounterFactuals(X, targets_dataset=T, k=k, batch_size=bs, distance="manhattan",
                                           case_returns=["distances", "examples"])
        if method == "labelaware":
            return EB.LabelAwareCounterFactuals(X, targets_dataset=T, k=k, batch_size=bs, distance="manhattan",
                                                case_returns=["distances", "examples"])
        return EB.KLEORSimMiss(X, targets_dataset=T, k=k, batch_size=bs, distance="manhattan",
                               case_returns=["distances", "examples", "nuns", "dist_to_nuns"])

    ok, obj = ctx.impl_call(d, build, signature="construct")
    if not ok:
        ctx.case(d, False)
        return
    ctx.case(d, True)
    ctx.count("reuse_method", method)
    kept = []
    for c in range(d["calls"]):
        Q = rng.integers(-4, 5, size=(n, dim)).astype(np.float32)
        qcls = rng.integers(nc, size=n)
        QT = np.eye(nc, dtype=np.float32)[qcls]
        cf = (qcls + 1 + rng.integers(nc - 1, size=n)) % nc
        CFT = np.eye(nc, dtype=np.float32)[cf]

        def call():
            if method == "similar":
                return obj(Q)
            if method == "labelaware":
                return obj(Q, targets=None, cf_expected_classes=CFT)
            return obj(Q, QT)
        ok, out = ctx.impl_call(d, call, signature=f"call")
        if not ok:
            return
        dm = l1(Q, X)
        if method == "similar":
            want = topk_sorted(dm, k)
        elif method == "naive":
            want = topk_sorted(dm, k, admissible=(cls[None, :] != qcls[:, None]))
        elif method == "labelaware":
            want = topk_sorted(dm, k, admissible=(cls[None, :] == cf[:, None]))
        else:
            want = None
        got = as_np(out["distances"]).astype(np.float64)
        if want is not None:
            good = got.shape == want.shape and bool(np.array_equal(got, want))
            ctx.check_prop("reused-object-returns-k-nearest", good, d,
                           {"call": c, "got": got[:2].tolist(), "brute_force": want[:2].tolist()},
                           signature="reuse:" + method)
        else:
            # KLEOR SimMiss: NUN = nearest unlike case; returned cases are same-class, ranked by distance to the NUN
            unlike = cls[None, :] != qcls[:, None]
            nun_d = topk_sorted(dm, 1, admissible=unlike)[:, 0]
            gotn = as_np(out["dist_to_nuns"]).astype(np.float64)
            # recompute from the returned NUN examples
            nuns = as_np(out["nuns"]).reshape(n, -1, dim)[:, 0, :]
            true_nun_d = np.abs(Q - nuns).sum(-1)
            has = np.isfinite(nun_d)
            ctx.check_prop("reused-object-nun-is-nearest-unlike", bool(np.array_equal(true_nun_d[has], nun_d[has])), d,
                           {"call": c, "nun_dist": true_nun_d.tolist(), "brute_force": nun_d.tolist()},
                           signature="reuse:" + method)
            dn = l1(nuns, X)
            want2 = topk_sorted(dn, k, admissible=(cls[None, :] == qcls[:, None]))
            g2 = gotn.reshape(n, -1)
            ctx.check_prop("reused-object-returns-k-nearest", g2.shape == want2.shape and bool(np.array_equal(g2[has], want2[has])), d,
                           {"call": c, "got": g2[:2].tolist(), "brute_force": want2[:2].tolist()}, signature="reuse:" + method)
        kept.append((out, {k_: as_np(v).copy() for k_, v in out.items()}))
        # results of earlier calls, as returned, must still hold their values
        for j, (o, snap) in enumerate(kept[:-1]):
            same = all(np.array_equal(as_np(o[k_]), snap[k_], equal_nan=True) for k_ in snap if as_np(o[k_]).dtype.kind in "fiu")
            ctx.check_prop("earlier-result-not-overwritten", same, d, {"earlier_call": j, "after_call": c},
                           signature="reuse:" + method)


def run_cosine_scale_case(ctx, d):
    """d: {family:'cosine-scale', N, dim, n, k, bs, scale, case_seed}"""
    from xplique.example_based import SimilarExamples
    rng = np.random.default_rng(d["case_seed"])
    N, dim, n, k, bs = d["N"], d["dim"], d["n"], d["k"], d["bs"]
    X = rng.integers(-4, 5, size=(N, dim)).astype(np.float64)
    X[np.all(X == 0, axis=1)] = 1.0
    Q = rng.integers(-4, 5, size=(n, dim)).astype(np.float64)
    Q[np.all(Q == 0, axis=1)] = 1.0
    s = d["scale"]
    ctx.case(d, True)
    ctx.count("cosine_scale", str(s))
    ok, out = ctx.impl_call(d, lambda: SimilarExamples((X * s).astype(np.float32), k=k, batch_size=bs, distance="cosine",
                                                       case_returns=["distances"])((Q * s).astype(np.float32)))
    if not ok:
        return
    cos = 1.0 - (Q @ X.T) / (np.linalg.norm(Q, axis=1)[:, None] * np.linalg.norm(X, axis=1)[None, :])
    want = topk_sorted(cos, k)
    got = as_np(out["distances"]).astype(np.float64)
    ctx.check_prop("cosine-distance-scale-invariant", got.shape == want.shape and bool(np.allclose(got, want, rtol=1e-4, atol=2e-6)), d,
                   {"scale": s, "got": got[:2].tolist(), "unscaled_brute_force": want[:2].tolist()})


def run_asym_case(ctx, d):
    """d: {family:'asym', N, dim, n, k, bs, case_seed}: a user-supplied distance that is NOT symmetric
    (quasi-metric): the search must rank by d(query, case), argument order as documented (x1 = inputs, x2 = cases)"""
    import tensorflow as tf
    from xplique.example_based import SimilarExamples
    rng = np.random.default_rng(d["case_seed"])
    N, dim, n, k, bs = d["N"], d["dim"], d["n"], d["k"], d["bs"]
    X = rng.integers(-4, 5, size=(N, dim)).astype(np.float32)
    Q = rng.integers(-4, 5, size=(n, dim)).astype(np.float32)

    def quasi(x1, x2):                      # 2 * (how much x1 exceeds x2) + (how much x2 exceeds x1)
        return tf.reduce_sum(2.0 * tf.nn.relu(x1 - x2) + tf.nn.relu(x2 - x1), axis=-1)
    ctx.case(d, True)
    ctx.count("asym_distance_cases")
    ok, out = ctx.impl_call(d, lambda: SimilarExamples(X, k=k, batch_size=bs, distance=quasi, case_returns=["distances"])(Q))
    if not ok:
        return
    diff = Q[:, None, :].astype(np.float64) - X[None, :, :]
    dm = (2.0 * np.maximum(diff, 0) + np.maximum(-diff, 0)).sum(-1)
    want = topk_sorted(dm, k)
    got = as_np(out["distances"]).astype(np.float64)
    ctx.check_prop("asymmetric-distance-query-to-case", got.shape == want.shape and bool(np.array_equal(got, want)), d,
                   {"got": got[:2].tolist(), "brute_force_d(query,case)": want[:2].tolist()})


def run_kchange_case(ctx, d):
    """d: {family:'kchange', N, dim, n, ks, bs, case_seed}: `k` reassigned between explain calls on one object"""
    from xplique.example_based import SimilarExamples
    rng = np.random.default_rng(d["case_seed"])
    N, dim, n, bs = d["N"], d["dim"], d["n"], d["bs"]
    X = rng.integers(-4, 5, size=(N, dim)).astype(np.float32)
    ctx.case(d, True)
    ctx.count("k_reassigned_cases")
    ok, obj = ctx.impl_call(d, lambda: SimilarExamples(X, k=d["ks"][0], batch_size=bs, distance="manhattan",
                                                       case_returns=["distances"]), signature="construct")
    if not ok:
        return
    for c, k in enumerate(d["ks"]):
        Q = rng.integers(-4, 5, size=(n, dim)).astype(np.float32)

        def call():
            obj.k = int(k)
            return obj(Q)
        ok, out = ctx.impl_call(d, call, signature="call-after-k-change")
        if not ok:
            return
        want = topk_sorted(l1(Q, X), k)
        got = as_np(out["distances"]).astype(np.float64)
        ctx.check_prop("k-reassigned-returns-k-nearest", got.shape == want.shape and bool(np.array_equal(got, want)), d,
                       {"call": c, "k": k, "got_shape": list(got.shape), "got": got[:1].tolist(), "brute_force": want[:1].tolist()})


def gen_extra_cases(rng, thorough, methods):
    cases = []
    reps = 6 if thorough else 1
    for method in methods:
        for _ in range(reps * 2):
            N = int(rng.integers(6, 13))
            cases.append({"family": "reuse", "method": method, "N": N, "dim": int(rng.integers(1, 4)), "n": int(rng.integers(1, 4)),
                          "k": int(rng.integers(1, 4)), "bs": int(rng.integers(2, N + 2)), "calls": 3,
                          "case_seed": int(rng.integers(1 << 31))})
    if "similar" in methods:
        for _ in range(reps * 3):
            N = int(rng.integers(5, 12))
            cases.append({"family": "asym", "N": N, "dim": int(rng.integers(1, 4)), "n": int(rng.integers(1, 4)),
                          "k": int(rng.integers(1, N + 1)), "bs": int(rng.integers(1, N + 2)), "case_seed": int(rng.integers(1 << 31))})
        for _ in range(reps * 2):
            N = int(rng.integers(6, 12))
            cases.append({"family": "kchange", "N": N, "dim": int(rng.integers(1, 4)), "n": int(rng.integers(1, 4)),
                          "ks": [int(v) for v in rng.integers(1, N + 1, size=3)], "bs": int(rng.integers(2, N + 2)),
                          "case_seed": int(rng.integers(1 << 31))})
        for s in ([1e-7, 1e-9, 1e3, 1.0] if thorough else [1e-7, 1e-9]):
            for _ in range(reps):
                N = int(rng.integers(5, 11))
                cases.append({"family": "cosine-scale", "N": N, "dim": int(rng.integers(2, 5)), "n": int(rng.integers(1, 4)),
                              "k": int(rng.integers(1, N + 1)), "bs": int(rng.integers(1, N + 2)), "scale": s,
                              "case_seed": int(rng.integers(1 << 31))})
    return cases


def run_extra(ctx, d):
    {"reuse": run_reuse_case, "asym": run_asym_case, "kchange": run_kchange_case,
     "cosine-scale": run_cosine_scale_case}[d["family"]](ctx, d)
