"""C18 - prototype selection (ProtoGreedy / MMDCritic / ProtoDash).

Implementation: xplique.example_based.{ProtoGreedy, MMDCritic, ProtoDash} (prototypes.py) and their
search methods (proto_greedy_search.py, mmd_critic_search.py, proto_dash_search.py).
Model: Lean `ProtoSel.run (cfgOf …)` (literal triangular traversal, padded tables, greedy loop, same batch
size); Spec: Lean `ProtoSel.mu / objSpec / greedySpec` (dense column means, documented objectives from the
full kernel matrix, first maximiser in dataset order); local explanations: `ProtoSel.localExplain`.

Lanes.  Kernel values: custom rational kernels `lin` (x.y + 1, integer valued -> sums exact in float32)
and `rat` (1 / (1 + |x - y|^2)) are computed by Lean from the integer data; `rbf` values are computed by
the harness in float32 from exact squared norms and handed to Lean as exact rationals.  Objectives are
compared within a forward-error budget (16 (N + s + 4) u B, B = sum of |terms| from Lean; for ProtoGreedy
additionally the float64 condition number of K_S + eps I).  A selection step whose two best exact
objectives are closer than the budget is *tie-ambiguous*: the pick only has to be one of the tied
candidates and later steps are checked with the implementation's own prefix (teacher forcing); runs are
compared with each other / with the Lean Impl run only up to the first such step.  Exception: with the
integer kernel `lin` and MMDCritic, exactly duplicated points give bit-identical float
objectives for every batching (all sums are exact integer sums), so there the FIRST duplicate in dataset order
is demanded.
"""
import json
import os
from fractions import Fraction

import numpy as np

from common import enc, VERIF

RULE = ("case = (dataset kind uniform / clustered / compact grid / duplicated integer points, N, d, method, kernel lin|rat|rbf(gamma), "
        "nb_global_prototypes m <= N, nb_local_prototypes k, distance, optional integer projection, 3 batch sizes "
        "out of 1..N+1/None incl. a one-batch reference) from a seeded generator; every batch size builds the real "
        "explainer; compared: padded kernel_col_means / kernel_diag tables vs Lean Impl tables and vs dense column "
        "means; _compute_batch_objectives on every prefix of the selection vs the documented objective from the full "
        "kernel matrix; every pick vs the first maximiser (tie-ambiguous steps only have to pick a tied candidate); "
        "selection / indices / weights vs the Lean Impl run with the same batch size and across batch sizes; "
        "distinctness, weights >= 0 summing to 1; explain() vs the k nearest prototypes with their dataset indices "
        "and labels. distinct = distinct descriptor hash; non-trivial = >= 2 batches in some run, m >= 2 and at "
        "least one decided (non-ambiguous) selection step")

U = 2.0 ** -24
EPS32 = Fraction(float(np.float32(1e-6)))
METHODS = {"mmd": "MMDCritic", "greedy": "ProtoGreedy", "dash": "ProtoDash"}
DIST_KIND = {"euclidean": "l2sq", "manhattan": "l1", "chebyshev": "linf"}
# Candidate finding (NOT listed in known_findings.json by this builder; the stream below is only generated when
# an entry {"property": "C18", "clause": "implementation-raises", "signature": SING_SIG} exists there):
# ProtoGreedy / ProtoDash with a custom kernel whose diagonal is >= ~16 and a duplicated (or linearly dependent)
# point raise InvalidArgumentError "Input is not invertible": EPSILON = 1e-6 is absorbed by float32
# (37 + 1e-6 == 37), so K_S + eps I stays exactly singular.  Minimal input:
#   ProtoGreedy(np.array([[6.], [6.]], 'float32'), nb_global_prototypes=2,
#               kernel_fn=lambda a, b: tf.matmul(a, b, transpose_b=True) + 1.0)
SING_SIG = "singular selection kernel: tf.linalg.inv raises (EPSILON absorbed by float32)"


# --------------------------------------------------------------------------------------
# data
# --------------------------------------------------------------------------------------
def make_data(d):
    rng = np.random.default_rng(d["case_seed"])
    n, dim = d["N"], d["d"]
    kind = d["data"]
    if "X" in d:                       # explicit dataset (corpus / probe cases)
        x = np.array(d["X"], dtype=np.int64).reshape(n, dim)
    elif kind == "uniform":
        x = rng.integers(-4, 5, size=(n, dim))
    elif kind == "clustered":
        cen = rng.integers(-5, 6, size=(3, dim))
        x = cen[rng.integers(0, 3, size=n)] + rng.integers(-1, 2, size=(n, dim))
    elif kind == "grid":             # a shuffled subset of a compact grid: many close neighbours, all distinct
        side = 2
        while side ** dim < n:
            side += 1
        import itertools
        pts = np.array(list(itertools.product(range(side), repeat=dim)))
        x = pts[rng.permutation(len(pts))[:n]]
    else:  # "dups": few distinct points, many exact duplicates
        pts = rng.integers(-2, 3, size=(max(2, n // 3), dim))
        x = pts[rng.integers(0, len(pts), size=n)]
    if d.get("distinct"):
        # make rows pairwise distinct by re-drawing duplicates further out
        seen = set()
        for i in range(n):
            t = 0
            while tuple(x[i]) in seen:
                x[i] = x[i] + rng.integers(-2, 3, size=dim) + (t // 20)
                t += 1
            seen.add(tuple(x[i]))
    x = x.astype(np.float32)
    if d.get("offset"):
        # a large common offset changes no distance, hence no rbf kernel value, objective or selection (an rbf computed
        # through ||a||^2 - 2<a,b> + ||b||^2 in float32 does change) - added after a seeded change was missed
        x = x + np.float32(d["offset"])
    labels = (np.arange(n) * 10 + 3).astype(np.float32)
    nq = 3
    q = x[rng.integers(0, n, size=nq)].copy()
    q[1:] += (rng.integers(-2, 3, size=(nq - 1, dim)) / 2).astype(np.float32)   # half-integer offsets
    proj = None
    if d.get("proj"):
        a = rng.integers(-2, 3, size=(dim, dim + 1)).astype(np.float32)
        w = rng.integers(1, 4, size=(dim + 1,)).astype(np.float32)
        proj = (a, w)
    return x, labels, q, proj


def project(x, proj):
    if proj is None:
        return x
    a, w = proj
    return ((x.astype(np.float64) @ a.astype(np.float64)) * w.astype(np.float64)).astype(np.float32)


def kernel_setup(d, xp):
    """returns (python kernel_fn or None, gamma argument, driver kernel fields, float64 K, float32 gamma)"""
    import tensorflow as tf
    kn = d["kernel"]
    if kn == "lin":
        kf = lambda a, b: tf.matmul(a, b, transpose_b=True) + 1.0          # noqa: E731
        k64 = xp.astype(np.float64) @ xp.astype(np.float64).T + 1.0
        return kf, None, {"kernel": "lin", "X": enc(xp)}, k64, None
    if kn == "rat":
        kf = lambda a, b: 1.0 / (1.0 + tf.reduce_sum((a[:, None] - b[None]) ** 2, -1))   # noqa: E731
        d2 = ((xp[:, None].astype(np.float64) - xp[None].astype(np.float64)) ** 2).sum(-1)
        return kf, None, {"kernel": "rat", "X": enc(xp)}, 1.0 / (1.0 + d2), None
    # rbf: values through exp, computed in float32 from exact squared norms
    gamma = d["gamma"]
    g = (1.0 / xp.shape[1]) if gamma is None else gamma
    g32 = np.float32(g)
    d2 = ((xp[:, None].astype(np.float64) - xp[None].astype(np.float64)) ** 2).sum(-1).astype(np.float32)
    k32 = np.exp(-g32 * d2).astype(np.float32)
    return None, gamma, {"kernel": "matrix", "K": enc(k32)}, k32.astype(np.float64), g32


# --------------------------------------------------------------------------------------
# budgets and step classification
# --------------------------------------------------------------------------------------
def budget(meth, n, s, mag, cond):
    b = 16.0 * (n + s + 4) * U * float(mag)
    if meth == "greedy":
        b += 16.0 * U * float(mag) * cond
    return b + 1e-9


def classify_steps(d, steps, sel, k64, xp):
    """per step: dict(cstar, group, decided, hard, buds{c: budget}, objs{c: Fraction})"""
    n = d["N"]
    meth = d["meth"]
    out = []
    for t, step in enumerate(steps):
        pre = sel[:t]
        objs, buds = {}, {}
        for c, o, mag in step:
            c = int(c)
            cond = 1.0
            if meth == "greedy":
                tt = pre + [c]
                cond = float(np.linalg.cond(k64[np.ix_(tt, tt)] + 1e-6 * np.eye(len(tt))))
            objs[c] = o
            buds[c] = budget(meth, n, t, mag, cond)
        cands = sorted(objs)
        cstar = cands[0]
        for c in cands:
            if objs[c] > objs[cstar]:
                cstar = c
        group = [c for c in cands if c == cstar or float(objs[cstar] - objs[c]) <= buds[c] + buds[cstar]]
        decided = len(group) == 1
        hard = False
        if not decided and d["kernel"] == "lin" and meth == "mmd":
            # bit-identical float objectives for exact duplicates of one point (integer kernel: every sum
            # of the MMD objective is an exact integer sum): the first of them must win for every batching
            if all(np.array_equal(xp[c], xp[cstar]) for c in group) and all(objs[c] == objs[cstar] for c in group):
                hard = True
        out.append({"cstar": cstar, "group": group, "decided": decided, "hard": hard, "objs": objs, "buds": buds})
    return out


def direct_objectives(sm, xp, pre, cands):
    """the REAL `_compute_batch_objectives` evaluated for all candidates given the selected prefix,
    fed with the implementation's own tables and kernel function"""
    import tensorflow as tf
    cm = sm.kernel_col_means.numpy().reshape(-1)
    dg = sm.kernel_diag.numpy().reshape(-1)
    bs = int(sm.batch_size)
    pos = lambda i: (i // bs) * bs + (i % bs)       # noqa: E731  (tables are (n_batches, bs) row-major)
    ci = [pos(c) for c in cands]
    si = [pos(c) for c in pre]
    xc = tf.constant(xp[cands])
    if pre:
        xs = tf.constant(xp[pre])
        cand_sel = sm.kernel_fn(xc, xs)
        sel_sel = sm.kernel_fn(xs, xs)
    else:
        cand_sel = None
        sel_sel = tf.zeros((0, 0), dtype=tf.float32)
    o, _ = sm._compute_batch_objectives(tf.constant(dg[ci]), tf.constant(cm[ci]),
                                        tf.constant(cm[si], dtype=tf.float32), cand_sel, sel_sel)
    return o.numpy()


def corr(ctx, name, ok, case, detail, exact=False):
    if ok:
        ctx.lanes["exact" if exact else "tol"] += 1
        return True
    ctx.corr_failures.append((name, case, detail))
    return False


def close(a, b, atol, rtol=0.0):
    a = float(a)
    b = float(b)
    return a == a and abs(a - b) <= atol + rtol * max(abs(a), abs(b))


# --------------------------------------------------------------------------------------
# one case
# --------------------------------------------------------------------------------------
def run_case(ctx, d):
    import tensorflow as tf
    import xplique.example_based as eb
    from xplique.example_based.projections import Projection
    x, labels, q, proj = make_data(d)
    n, m, k, meth = d["N"], d["m"], d["k"], d["meth"]
    xp = project(x, proj)
    qp = project(q, proj)
    kf, gamma_arg, kfields, k64, g32 = kernel_setup(d, xp)
    cls = getattr(eb, METHODS[meth])
    dist = d["dist"]
    runs = []
    for bs in d["bss"]:
        def build(bs=bs):
            pr = None
            if proj is not None:
                a = tf.constant(proj[0])
                pr = Projection(get_weights=tf.constant(proj[1]), space_projection=lambda z: tf.matmul(z, a))
            p = cls(x, labels_dataset=labels, nb_global_prototypes=m, nb_local_prototypes=k, batch_size=bs,
                    kernel_fn=kf, gamma=gamma_arg, distance=dist, projection=pr,
                    case_returns=["examples", "distances", "labels", "indices"])
            g = p.get_global_prototypes()
            sm = p.global_prototypes_search_method
            out = p(q)
            return p, g, sm, out
        ok, res = ctx.impl_call(dict(d, bs=bs), build,
                                signature=SING_SIG if (d["kernel"] == "lin" and meth != "mmd") else None)
        if not ok:
            ctx.case(d, False)
            return
        runs.append((bs,) + res)

    nontrivial = False
    ref = None
    for (bs, p, g, sm, out) in runs:
        dd = dict(d, bs=bs)
        be = int(p.batch_size)
        nbat = -(-n // be)
        ctx.count("method", meth)
        ctx.count("kernel", d["kernel"])
        ctx.count("offset", str(d.get("offset", 0)))
        ctx.count("n_batches", "1" if nbat == 1 else ("2-3" if nbat <= 3 else ("N" if be == 1 else "4+")))
        ctx.count("remainder_batch", "yes" if n % be else "no")
        ctx.count("N", "3-6" if n <= 6 else ("7-14" if n <= 14 else "15-30"))
        ctx.count("all_cases_selected(m=N)", "yes" if m == n else "no")
        ctx.count("distance", str(d["dist"]))
        ctx.count("projection", "yes" if proj is not None else "no")
        idx = np.asarray(g["prototypes_indices"].numpy())
        w = np.asarray(g["prototypes_weights"].numpy(), dtype=np.float64)
        ok_shape = idx.shape == (m, 2) and w.shape == (m,)
        ctx.check_prop("shape", ok_shape, dd, {"idx": list(idx.shape), "w": list(w.shape)})
        if not ok_shape:
            continue
        flat_i = (idx[:, 0] * be + idx[:, 1]).tolist()
        # ---- distinct cases of the dataset --------------------------------------------------
        valid = all(0 <= int(b_) < nbat and 0 <= int(p_) < be and 0 <= f < n for (b_, p_), f in zip(idx, flat_i))
        ctx.check_prop("distinct-cases", valid and len(set(flat_i)) == m, dd, {"flat": flat_i, "idx": idx.tolist()})
        if not valid:
            continue
        ctx.check_prop("prototypes-are-dataset-rows",
                       np.array_equal(g["prototypes"].numpy(), x[flat_i])
                       and np.array_equal(np.asarray(g["prototypes_labels"].numpy()), labels[flat_i]), dd,
                       {"flat": flat_i})
        # ---- weights on the simplex ---------------------------------------------------------
        ctx.check_prop("weights-simplex", bool(np.all(np.isfinite(w)) and np.all(w >= 0) and abs(w.sum() - 1) <= 1e-5),
                       dd, {"w": w.tolist(), "sum": float(w.sum())})
        # ---- Lean: Impl run (same batch size), Spec tables ----------------------------------
        r = ctx.driver.call(dict({"op": "proto_run", "n": n, "b": be, "m": m, "eps": enc(EPS32), "meth": meth}, **kfields))
        cm = sm.kernel_col_means.numpy()
        dg = sm.kernel_diag.numpy()
        tab_ok = cm.shape == (nbat, be) and dg.shape == (nbat, be)
        ctx.check_prop("table-shape", tab_ok, dd, {"cm": list(cm.shape)})
        if tab_ok:
            ctx.check_corr("tables_impl_model", [cm, dg], [r["cm"], r["dg"]], dd)
            spec_cm = [[r["mu"][bi * be + pp] if bi * be + pp < n else Fraction(0) for pp in range(be)] for bi in range(nbat)]
            spec_dg = [[r["kdiag"][bi * be + pp] if bi * be + pp < n else Fraction(0) for pp in range(be)] for bi in range(nbat)]
            ctx.check_pred("colmeans-equal-dense-column-means", cm, spec_cm, dd)
            ctx.check_pred("diag-equal-kernel-diagonal", dg, spec_dg, dd)
        # ---- documented objective, first maximiser (teacher forcing on the implementation's prefix) ----
        ro = ctx.driver.call(dict({"op": "proto_objs", "n": n, "eps": enc(EPS32), "meth": meth, "sel": flat_i}, **kfields))
        steps = classify_steps(d, ro["steps"], flat_i, k64, xp)
        first_soft = m
        for t, st in enumerate(steps):
            cands = sorted(st["objs"])
            o32 = direct_objectives(sm, xp, flat_i[:t], cands)
            bad = [(c, float(oi), float(st["objs"][c])) for c, oi in zip(cands, o32)
                   if not close(oi, st["objs"][c], st["buds"][c])]
            ctx.check_prop("objective-equals-documented-objective", not bad, dd, {"step": t, "prefix": flat_i[:t], "bad": bad[:4]})
            ctx.lanes["tol"] += 1
            pick = flat_i[t]
            if st["decided"] or st["hard"]:
                ctx.count("steps", "decided" if st["decided"] else "exact-tie-first-duplicate")
                ctx.check_prop("greedy-argmax-first-maximiser" if t or meth != "dash" else "protodash-first-largest-mean-kernel",
                               pick == st["cstar"], dd,
                               {"step": t, "prefix": flat_i[:t], "picked": pick, "first_maximiser": st["cstar"],
                                "obj_picked": float(st["objs"].get(pick, float("nan"))), "obj_max": float(st["objs"][st["cstar"]])})
                nontrivial = nontrivial or (st["decided"] and nbat >= 2 and m >= 2 and len(cands) > 1)
            else:
                ctx.count("steps", "tie-ambiguous")
                ctx.check_prop("greedy-argmax-within-budget", pick in st["group"], dd,
                               {"step": t, "picked": pick, "tied": st["group"]})
                first_soft = min(first_soft, t)
        # ---- selection vs Lean Impl run (same batch size) -----------------------------------
        lean_idx = [[int(a), int(b_)] for a, b_ in r["idx"]]
        corr(ctx, "selection_impl_model", lean_idx[:first_soft] == idx.tolist()[:first_soft], dd,
             {"impl": idx.tolist(), "model": lean_idx, "compared_steps": first_soft}, exact=True)
        full = first_soft == m and lean_idx == idx.tolist()
        # ---- weights vs Lean (reference weight update followed along the implementation's own selection) ----
        wtol = None
        sign_amb = False
        if meth == "dash":
            sign_amb = any(abs(float(o)) <= steps[t]["buds"][flat_i[t]] for t, o in enumerate(ro["picked_objs"]))
            ctx.count("dash_gain", "some-step-nonpositive" if any(o <= 0 for o in ro["picked_objs"]) else "all-positive")
        cond = 1.0
        if meth != "mmd":
            cond = float(np.linalg.cond(k64[np.ix_(flat_i, flat_i)] + 1e-6 * np.eye(m)))
        wtol = 32.0 * U * (cond + m)
        if sign_amb or wtol > 0.02 or ro["w_forced"] is None:
            ctx.count("weights", "not-compared(ill-conditioned or sign-ambiguous)")
            wtol = None
        else:
            ctx.count("weights", "compared")
            scale = max(abs(float(v)) for v in ro["w_forced_raw"]) / max(float(sum(ro["w_forced_raw"])), 1e-30)
            okw = all(close(a, b_, wtol * max(scale, 1.0) + 2e-7) for a, b_ in zip(w, ro["w_forced"]))
            corr(ctx, "weights_impl_model", okw, dd, {"impl": w.tolist(), "model": [float(v) for v in ro["w_forced"]], "tol": wtol})
            if meth in ("mmd", "greedy"):
                ctx.check_prop("weights-equal-documented-weights",
                               ro["w"] is not None and all(close(a, b_, wtol * max(scale, 1.0) + 2e-7) for a, b_ in zip(w, ro["w"])),
                               dd, {"impl": w.tolist(), "spec": None if ro["w"] is None else [float(v) for v in ro["w"]]})
            if full and r["w"] is not None:
                corr(ctx, "weights_impl_run_model", all(close(a, b_, wtol * max(scale, 1.0) + 2e-7) for a, b_ in zip(w, r["w"])),
                     dd, {"impl": w.tolist(), "model": [float(v) for v in r["w"]]})
        # ---- batching independence (implementation vs implementation) ------------------------
        if ref is None:
            ref = (bs, flat_i, w, first_soft, wtol)
        else:
            t_cmp = min(first_soft, ref[3])
            ctx.check_prop("batching-independence-selection", flat_i[:t_cmp] == ref[1][:t_cmp], dd,
                           {"bs": bs, "ref_bs": ref[0], "flat": flat_i, "ref_flat": ref[1], "compared_steps": t_cmp})
            if flat_i == ref[1] and wtol is not None and ref[4] is not None:
                ctx.check_prop("batching-independence-weights",
                               all(close(a, b_, 2 * max(wtol, ref[4]) + 4e-7) for a, b_ in zip(w, ref[2])), dd,
                               {"w": w.tolist(), "ref_w": ref[2].tolist()})
        # ---- local explanations ---------------------------------------------------------------
        check_local(ctx, dd, d, out, idx, flat_i, be, x, xp, qp, labels, k64, g32, q)
    ctx.case(d, nontrivial)


def check_local(ctx, dd, d, out, idx, flat_i, be, x, xp, qp, labels, k64, g32, q):
    k, m = d["k"], d["m"]
    dist = d["dist"]
    op = {"op": "proto_local", "bs": be, "k": k, "proto_idx": idx.tolist(), "labels": enc(labels[flat_i])}
    pp = xp[flat_i]
    squared = True
    if dist is None:
        if d["kernel"] == "matrix":
            d2 = ((qp[:, None].astype(np.float64) - pp[None].astype(np.float64)) ** 2).sum(-1).astype(np.float32)
            kq = np.exp(-g32 * d2).astype(np.float32).astype(np.float64)
            op.update({"dist": "matrix", "D": enc(2.0 - 2.0 * kq)})
        else:
            op.update({"dist": "kern_" + d["kernel"], "P": enc(pp), "Q": enc(qp)})
    else:
        op.update({"dist": DIST_KIND[dist], "P": enc(pp), "Q": enc(qp)})
        squared = dist == "euclidean"
    r = ctx.driver.call(op)
    di = np.asarray(out["distances"].numpy(), dtype=np.float64)
    ii = np.asarray(out["indices"].numpy())
    ll = np.asarray(out["labels"].numpy())
    ee = np.asarray(out["examples"].numpy())
    nq = qp.shape[0]
    ok_shape = di.shape == (nq, k) and ii.shape == (nq, k, 2) and ll.shape == (nq, k) and ee.shape == (nq, k) + x.shape[1:]
    ctx.check_prop("local-shape", ok_shape, dd, {"distances": list(di.shape), "indices": list(ii.shape)})
    if not ok_shape:
        return
    pre = di ** 2 if (squared or dist is None) else di
    tol = lambda v: 2e-5 * max(1.0, abs(float(v))) + 1e-6      # noqa: E731
    for qi in range(nq):
        dm = [float(v) for v in r["D"][qi]]                      # exact pre-root distance to every prototype
        res = r["res"][qi]
        want = [float(e[0]) for e in res]
        got = pre[qi].tolist()
        # (1) the returned distances are the k smallest prototype distances, ascending
        ok1 = all(abs(a - b_) <= tol(b_) for a, b_ in zip(got, want))
        # (2) every returned (index, label, example, distance) is a prototype with ITS dataset index / label
        ok2 = True
        seen = []
        for j in range(k):
            pair = [int(ii[qi, j, 0]), int(ii[qi, j, 1])]
            ts = [t for t in range(m) if idx[t].tolist() == pair]
            if len(ts) != 1:
                ok2 = False
                break
            t = ts[0]
            f = flat_i[t]
            seen.append(t)
            if not (abs(got[j] - dm[t]) <= tol(dm[t]) and float(ll[qi, j]) == float(labels[f])
                    and np.array_equal(ee[qi, j], x[f])):
                ok2 = False
                break
        ok2 = ok2 and len(set(seen)) == k
        ctx.check_prop("local-k-nearest-prototypes", ok1, dd, {"query": qi, "got_pre_root": got, "want": want})
        ctx.check_prop("local-indices-labels-of-the-prototypes", ok2, dd,
                       {"query": qi, "indices": ii[qi].tolist(), "labels": ll[qi].tolist(), "proto_idx": idx.tolist()})
        # correspondence with the Lean list (order included) when no two distances are within tolerance
        srt = sorted(dm)
        gaps_ok = all(srt[j + 1] - srt[j] > 4 * tol(srt[j + 1]) for j in range(min(k, len(srt) - 1)))
        if gaps_ok and ok2:
            lean_pairs = [[int(e[1]), int(e[2])] for e in res]
            lean_labels = [float(e[3]) for e in res]
            corr(ctx, "local_impl_model", lean_pairs == ii[qi].tolist() and lean_labels == ll[qi].tolist(), dd,
                 {"query": qi, "impl": ii[qi].tolist(), "model": lean_pairs}, exact=True)
            ctx.count("local", "order-compared")
        else:
            ctx.count("local", "ties(set-validated)")


# --------------------------------------------------------------------------------------
# generator
# --------------------------------------------------------------------------------------
def gen_cases(ctx):
    rng = ctx.rng
    thorough = ctx.tier == "thorough"
    ncase = (200 if thorough else 24) * ctx.budget_scale
    nmax = 30 if thorough else 14
    cases = []
    # the integer kernel `lin` has rank <= d + 1: only MMDCritic (no matrix inverse) is run on it
    combos = [("mmd", "lin"), ("mmd", "rat"), ("mmd", "matrix"), ("greedy", "rat"), ("greedy", "matrix"),
              ("dash", "rat"), ("dash", "matrix"), ("mmd", "lin")]
    for i in range(ncase):
        meth, kern = combos[i % len(combos)]
        big = thorough and rng.random() < 0.25
        n = int(rng.integers(15, nmax + 1)) if big else int(rng.integers(3, 15 if thorough else nmax + 1))
        if not thorough and i % 4 == 0:
            n = int(rng.integers(10, nmax + 1))
        dim = int(rng.integers(1, 4))
        if kern == "lin":
            data = ["dups", "dups", "clustered", "uniform"][int(rng.integers(4))]
        else:
            data = ["uniform", "clustered", "grid"][int(rng.integers(3))]
            if meth == "dash" and rng.random() < 0.4:
                data = "grid"
        mmax = n if n <= 14 else (12 if meth != "greedy" else 8)
        # ProtoDash: late steps with a non-positive gain (weight 0 branch) need most cases selected
        p_all = 0.6 if meth == "dash" else 0.3
        m = n if rng.random() < p_all and n <= 14 else int(rng.integers(1, mmax + 1))
        k = int(rng.integers(1, m + 1))
        # batch sizes: a one-batch reference (N, N+1 or None) + two proper batchings (small ones favoured,
        # so that prototypes fall in every batch and whole batches get exhausted)
        refbs = [n, n + 1, None][int(rng.integers(3))]
        others = set()
        pool = list(range(1, n)) or [1]
        while len(others) < min(2, len(pool)):
            b = int(rng.integers(1, 4)) if rng.random() < 0.5 else int(pool[int(rng.integers(len(pool)))])
            if b in pool:
                others.add(b)
        if big:
            others = {b if b > 2 else b + 3 for b in others}
        d = {"N": n, "d": dim, "data": data, "meth": meth, "kernel": kern,
             "gamma": [0.1, None, 1.0][int(rng.integers(3))] if kern == "matrix" else None,
             "m": m, "k": k,
             "dist": [None, "euclidean", "manhattan", "chebyshev"][int(rng.integers(4))],
             "proj": bool(rng.random() < 0.25), "distinct": meth == "greedy" or (meth == "dash" and rng.random() < 0.75),
             "bss": [refbs] + sorted(others), "case_seed": int(rng.integers(1 << 31))}
        if kern == "matrix" and not d["proj"] and rng.random() < 0.5:
            d["offset"] = 4096
        cases.append(d)
    if any(k_.get("signature") == SING_SIG for k_ in ctx.known):
        for meth, xs, m in (("greedy", [[6], [6]], 2), ("dash", [[6], [6], [-6], [-6], [-6]], 3)):
            cases.append({"N": len(xs), "d": 1, "data": "explicit", "X": xs, "meth": meth, "kernel": "lin", "gamma": None,
                          "m": m, "k": 1, "dist": "euclidean", "proj": False, "distinct": False,
                          "bss": [len(xs), 1], "case_seed": 1})
    return cases


def corpus_cases():
    p = os.path.join(VERIF, "corpus", "C18")
    out = []
    if os.path.isdir(p):
        for fn in sorted(os.listdir(p)):
            if fn.endswith(".json"):
                out.append(json.load(open(os.path.join(p, fn))))
    return out


def run(ctx):
    for d in corpus_cases() + gen_cases(ctx):
        run_case(ctx, d)
    from props import c18_extra
    for d in c18_extra.gen_cases(ctx.rng, ctx.tier == "thorough", ctx.budget_scale):
        c18_extra.run_case(ctx, d)


def replay(ctx, r):
    _d = r["case"] if "case" in r else r["first_disagreement"][0]
    if isinstance(_d, dict) and _d.get("family") == "mixkernel":
        from props import c18_extra
        c18_extra.run_case(ctx, _d)
        return
    c = r["case"] if "case" in r else r["first_disagreement"][0]
    c = {k: v for k, v in c.items() if k != "bs"}
    run_case(ctx, c)
