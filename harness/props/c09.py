"""C09 - RISE averages the scores of exactly the masked inputs it evaluated.

Implementation: xplique.attributions.Rise on a recording NumPy polynomial model; `Rise._get_masks`
is WRAPPED (not replaced) to log the binary grids it returned.
Model: Lean `Rise.explain` (logged grids -> bilinear upsample of the GENERATED size -> crop window ->
masked inputs -> chunked accumulation); Spec: Lean `Rise.specPairs` on the masks RECOVERED from the
recorded queries (`rise_mask_recover`) and the scores of exactly these queries.
"""
import ast
import json
import math
import os
import types
from fractions import Fraction

import numpy as np

from common import PolyModel, enc, fr, small_ints, VERIF

RULE = ("cases = (data kind tab/ts/img with H != W, sample shape, scalar or tuple grid, nb_samples 1..40, "
        "preservation probability, mask value, batch size incl. ones not dividing nb_samples, N, constant or "
        "polynomial score) drawn from a seeded generator; each case runs xplique.Rise on a recording integer "
        "polynomial model with Rise._get_masks wrapped to log the grids; the applied masks are recovered from the "
        "recorded queries, checked (range, channel-constancy, crop window of the Lean bilinear upsample of the "
        "logged grid) and the returned map is compared with the Lean Impl model (same grids, offsets, batch size) "
        "and with the Lean reference Spec on the recovered masks; distinct = distinct descriptor hash; "
        "non-trivial = nb_samples >= 2 and the map is not constant")

MASK_TOL = 2e-5          # recovered mask vs model mask (float32 mask application + division)
MAP_RTOL = 2e-4
MAP_ATOL = 2e-5          # times the score magnitude


class Rec:
    """recording wrapper: every batch the explainer sends (shape, content) and what was answered"""

    def __init__(self, poly):
        self.poly = poly
        self.shapes = []
        self.rows = []
        self.outs = []

    def __call__(self, x):
        x = np.asarray(x)
        self.shapes.append(tuple(x.shape))
        self.rows.append(np.array(x, dtype=np.float64).reshape(x.shape[0], -1))
        out = self.poly(x)
        self.outs.append(np.array(out, dtype=np.float64))
        return out


def track(ctx, key, val):
    """largest observed deviation (evidence: calibration of the tolerance lane)"""
    ctx.stats[key] = max(float(ctx.stats.get(key, 0.0)), float(val))


def geom_json(d):
    shape = d["shape"]
    g = d["grid"]
    if d["kind"] == "tab":
        return {"kind": "tab", "W": shape[0]}
    if d["kind"] == "ts":
        t = g[0] if isinstance(g, list) else g
        return {"kind": "ts", "T": shape[0], "W": shape[1], "t": t}
    h, w = (g if isinstance(g, list) else (g, g))
    return {"kind": "img", "H": shape[0], "W": shape[1], "C": shape[2], "h": h, "w": w}


def source_upsize(d):
    """evaluate the ORIGINAL float expressions `int(...)` of Rise._apply_masks on this case's shapes;
    None when the source no longer has them in the expected place"""
    try:
        import gen_arith
        tree = gen_arith.parse("attributions/rise.py")
        fn = gen_arith.find_func(tree, "_apply_masks", "Rise")
        calls = gen_arith.calls(fn, "int")
        if len(calls) != 4:
            return None
        geom = geom_json(d)
        if d["kind"] == "ts":
            env = {"single_input": types.SimpleNamespace(shape=(geom["T"], geom["W"])),
                   "binary_masks": types.SimpleNamespace(shape=(1, geom["t"], geom["W"]))}
            cs = calls[0:2]
        elif d["kind"] == "img":
            env = {"single_input": types.SimpleNamespace(shape=(geom["H"], geom["W"], geom["C"])),
                   "binary_masks": types.SimpleNamespace(shape=(1, geom["h"], geom["w"], 1))}
            cs = calls[2:4]
        else:
            return None
        return [int(eval(compile(ast.Expression(c), "<rise>", "eval"), {"int": int}, env)) for c in cs]
    except Exception:  # noqa: BLE001
        return None


def make_model(rng, d, nflat):
    if d.get("const") is not None:
        m = PolyModel(rng, nflat, nc=2, quad=0, cub=0)
        m.lin[:] = 0
        m.const[:] = np.array(d["const"])
        return m
    return PolyModel(rng, nflat, nc=2, quad=2, cub=0, coef=2)


def run_case(ctx, d):
    import tensorflow as tf
    from xplique.attributions import Rise
    rng = np.random.default_rng(d["case_seed"])
    shape = tuple(d["shape"])
    n, nb, bs, v, p = d["N"], d["nb"], d["bs"], d["v"], d["p"]
    kind = d["kind"]
    nflat = int(np.prod(shape))
    chan = shape[2] if kind == "img" else 1
    nfeat = nflat // chan
    poly = make_model(rng, d, nflat)
    rec = Rec(poly)
    if d.get("squeeze"):
        # a callable that drops size-1 dimensions of its prediction (np.squeeze(model.predict(x)) wrappers):
        # (L,) for a single row - the case the implementation's "prediction dimension disappeared" repair handles
        inner = rec

        class Squeezing:
            def __call__(self, z):
                out = np.asarray(inner(z))
                return out[0] if out.shape[0] == 1 else out
        rec_model = Squeezing()
    else:
        rec_model = rec
    vals = [a for a in (-4.0, -2.0, -1.0, 1.0, 2.0, 4.0) if a != v]
    x = rng.choice(vals, size=(n,) + shape).astype(np.float32)
    y = small_ints(rng, (n, 2), -2, 2)
    grid = tuple(d["grid"]) if isinstance(d["grid"], list) else d["grid"]
    kw = {} if grid is None else {"grid_size": grid}
    log = []
    orig = Rise.__dict__["_get_masks"]

    def wrapped(*a, **k):
        r = orig.__func__(*a, **k)
        log.append(np.array(r))
        return r

    def impl():
        tf.random.set_seed(d["case_seed"] % (1 << 30))
        Rise._get_masks = staticmethod(wrapped)
        try:
            expl = Rise(rec_model, batch_size=bs, nb_samples=nb, preservation_probability=p, mask_value=v, **kw)
            return expl(x, y).numpy(), float(np.float32(Rise.EPSILON))
        finally:
            Rise._get_masks = orig

    if d.get("malformed"):
        # time series with a tuple grid whose second entry is not the feature count: the code asserts
        try:
            impl()
            raised = 0
        except Exception:  # noqa: BLE001
            raised = 1
        ctx.case(d, False)
        ctx.count("malformed", "raised" if raised else "accepted")
        ctx.check_corr("rise_ts_grid_assert", [raised], [Fraction(1)], d)
        return

    ok, res = ctx.impl_call(d, impl)
    if not ok:
        ctx.case(d, False)
        return
    out, eps = res
    exp_shape = {"tab": (n, shape[0]), "ts": (n,) + shape, "img": (n,) + shape[:2] + (1,)}[kind]
    ctx.count("kind", kind)
    ctx.count("p", p)
    ctx.count("v", v)
    ctx.count("grid", "none" if grid is None else ("tuple" if isinstance(grid, tuple) else "scalar"))
    b_eff = nb if bs is None else bs
    ctx.count("bs_vs_nb", "none" if bs is None else ("ge" if bs >= nb else ("divides" if nb % bs == 0 else "not-dividing")))
    good_shape = ctx.check_prop("shape", tuple(out.shape) == exp_shape, d, {"got": list(out.shape), "want": list(exp_shape)})
    ctx.check_prop("dtype", str(out.dtype) == "float32", d, {"dtype": str(out.dtype)})
    ctx.check_prop("finite", bool(np.all(np.isfinite(out))), d)

    # ---- the grids returned by _get_masks -------------------------------------------------
    geom = geom_json(d)
    gshape = {"tab": (shape[0],), "ts": (geom.get("t"), shape[1]) if kind == "ts" else None,
              "img": (geom.get("h"), geom.get("w"), 1) if kind == "img" else None}[kind]
    if len(log) != 1 or tuple(log[0].shape) != (nb,) + tuple(gshape):
        ctx.check_corr("rise_grid_shape", [len(log)] + (list(log[0].shape) if log else []),
                       [Fraction(1), Fraction(nb)] + [Fraction(g) for g in gshape], d)
        ctx.case(d, False)
        return
    grids = log[0].reshape(nb, -1).astype(np.int64)
    ctx.count("grid_cells", "ones", int(grids.sum()))
    ctx.count("grid_cells", "total", int(grids.size))
    st = ctx.stats.setdefault("grid_cells_by_p", {}).setdefault(str(p), [0, 0])
    st[0] += int(grids.sum())
    st[1] += int(grids.size)
    if p >= 1.0:
        ctx.check_prop("preservation-p1-keeps-everything", bool(grids.all()), d, {"ones": int(grids.sum()), "cells": int(grids.size)})

    # ---- nb_masks: exactly nb_samples masked inputs per input, no call above the batch size ----
    total = sum(s[0] for s in rec.shapes)
    ctx.check_prop("nb-masks-evaluated", total == n * nb, d, {"queries": total, "want": n * nb})
    ctx.check_prop("calls_le_batch_size", max(s[0] for s in rec.shapes) <= b_eff, d,
                   {"max_call": max(s[0] for s in rec.shapes), "bs": b_eff})
    ctx.check_prop("query-shape", all(tuple(s[1:]) == shape for s in rec.shapes), d, {"shapes": [list(s) for s in rec.shapes[:3]]})
    if total != n * nb or not good_shape or not all(tuple(s[1:]) == shape for s in rec.shapes):
        ctx.case(d, False)
        return
    rows = np.concatenate(rec.rows, 0)                      # (n*nb, nflat)
    outs = np.concatenate(rec.outs, 0)                      # (n*nb, nc)
    call_sizes = [s[0] for s in rec.shapes]

    # ---- recover the applied masks (rise_mask_recover), range, channel constancy ---------------
    up = ctx.driver.call({"op": "rise_up", "geom": geom, "grids": enc(grids)})
    uh, uw = int(up["upsize"][0]), int(up["upsize"][1])
    ly, lx = int(up["offlimit"][0]), int(up["offlimit"][1])
    eh, ew = int(up["extent"][0]), int(up["extent"][1])
    src = source_upsize(d)
    if kind != "tab":
        if src is None:
            ctx.count("upsize_source", "not-evaluable")
        else:
            ctx.count("upsize_source", "evaluated")
            ctx.check_corr("rise_upsample_size_float", src, [Fraction(uh), Fraction(uw)], d)
    ups = np.array([[float(c) for c in r] for r in up["ups"]], dtype=np.float64).reshape(nb, uh, uw)
    xf = x.reshape(n, nflat).astype(np.float64)
    rec_masks, offss = [], []
    model_ok = True
    for i in range(n):
        q = rows[i * nb:(i + 1) * nb]                       # (nb, nflat)
        m_all = ((q - v) / (xf[i][None] - v)).reshape(nb, nfeat, chan)
        m = m_all[:, :, 0]
        ctx.check_prop("mask-channel-constant", bool(np.abs(m_all - m[:, :, None]).max() <= MASK_TOL), d,
                       {"maxdev": float(np.abs(m_all - m[:, :, None]).max())})
        ctx.check_prop("mask-in-unit-interval", bool(m.min() >= -MASK_TOL and m.max() <= 1 + MASK_TOL), d,
                       {"min": float(m.min()), "max": float(m.max())})
        rec_masks.append(m)
        # crop window search (finite offset range), one offset per chunk of masks
        mm = m.reshape(nb, eh, ew)
        offs = []
        pos = 0
        # chunk sizes of THIS input: the calls are made input by input
        ncall = len(call_sizes) // n
        mine = call_sizes[i * ncall:(i + 1) * ncall]
        if sum(mine) != nb:
            mine = [1] * nb                                   # unexpected chunking: one offset per mask
        for c in mine:
            best = (float("inf"), (0, 0))
            for dy in range(ly + 1):
                for dx in range(lx + 1):
                    dev = float(np.abs(mm[pos:pos + c] - ups[pos:pos + c, dy:dy + eh, dx:dx + ew]).max())
                    if dev < best[0]:
                        best = (dev, (dy, dx))
            offs.append(list(best[1]))
            track(ctx, "max_dev_mask_vs_window", best[0])
            if best[0] > MASK_TOL:
                model_ok = False
                ctx.check_corr("rise_mask_is_crop_window", mm[pos:pos + c].reshape(-1),
                               [fr(t) for t in ups[pos:pos + c, best[1][0]:best[1][0] + eh, best[1][1]:best[1][1] + ew].reshape(-1)],
                               d, rtol=0, atol=MASK_TOL, scale=1.0)
            ctx.count("crop_offset", "nonzero" if best[1] != (0, 0) else "zero")
            pos += c
        offss.append(offs)

    # ---- implementation vs Lean Impl model (same grids, offsets, batch size) --------------------
    scale = max(1.0, float(np.abs(outs @ np.abs(y).max(0)).max()))
    if model_ok:
        r = ctx.driver.call({"op": "rise_grid", "geom": geom, "polys": poly.json(), "v": enc(v), "eps": enc(eps),
                             "bs": bs, "grids": enc(grids), "xs": enc(xf), "ys": enc(y), "offss": offss})
        for i in range(n):
            ctx.check_corr("rise_masks_model", rec_masks[i].reshape(-1), [c for mk in r["masks"][i] for c in mk], d,
                           rtol=0, atol=MASK_TOL, scale=1.0)
        ctx.check_corr("rise_impl_model", out.reshape(n, -1), r["maps"], d, rtol=MAP_RTOL, atol=MAP_ATOL, scale=scale)

    # ---- property predicates: reference definition on recovered masks / recorded queries ---------
    for i in range(n):
        q = rows[i * nb:(i + 1) * nb]
        sp = ctx.driver.call({"op": "rise_spec", "nfeat": nfeat, "eps": enc(eps), "bs": bs, "polys": poly.json(),
                              "y": enc(y[i]), "masks": enc(rec_masks[i]), "queries": enc(q)})
        o = out[i].reshape(-1)
        track(ctx, "max_reldev_map_vs_spec", max(abs(float(a) - float(b)) for a, b in zip(o, sp["spec"])) / scale)
        ctx.check_pred("reference-definition", o, sp["spec"], d, rtol=MAP_RTOL, atol=MAP_ATOL, scale=scale)
        ctx.check_corr("rise_pairs_impl_model", o, sp["impl"], d, rtol=MAP_RTOL, atol=MAP_ATOL, scale=scale)
        # scores the implementation really saw (answers of the recording model)
        seen = (outs[i * nb:(i + 1) * nb] * y[i][None].astype(np.float64)).sum(1)
        ctx.check_corr("rise_scores_are_recorded_answers", seen, sp["scores"], d)
        smin, smax = float(seen.min()), float(seen.max())
        ratio = np.array([float(t) for t in sp["ratio"]])
        tol = MAP_ATOL * scale + MAP_RTOL * max(abs(smin), abs(smax))
        lo_ok = bool(np.all(o >= smin * ratio - tol))
        hi_ok = bool(np.all(o <= smax * ratio + tol))
        ctx.check_prop("bounds", lo_ok and hi_ok, d, {"smin": smin, "smax": smax, "min_out": float(o.min()), "max_out": float(o.max())})
        ctx.check_prop("ratio-in-unit-interval", bool(np.all(ratio >= -1e-9) and np.all(ratio < 1.0)), d)
        if d.get("const") is not None:
            c = float(np.dot(np.array(d["const"], dtype=np.float64), y[i].astype(np.float64)))
            ctx.check_pred("constant-score", o, [fr(c) * t for t in sp["ratio"]], d, rtol=MAP_RTOL, atol=MAP_ATOL, scale=max(1.0, abs(c)))
    nontrivial = nb >= 2 and len(set(np.round(out.reshape(-1), 6).tolist())) > 1
    ctx.case(d, nontrivial)


def gen_cases(ctx):
    rng = ctx.rng
    thorough = ctx.tier == "thorough"
    ncase = (1500 if thorough else 220) * ctx.budget_scale
    dmax = 14 if thorough else 9
    cases = []
    for idx in range(ncase):
        kind = ["tab", "ts", "img"][int(rng.choice(3, p=[0.15, 0.3, 0.55]))]
        nb = int(rng.integers(1, 41))
        bs = [None, 1, 2, 3, 5, 7, 16, 64][int(rng.integers(8))]
        if rng.random() < 0.3 and nb >= 3:       # force a batch size that does not divide nb_samples
            cand = [b for b in range(2, nb) if nb % b != 0]
            if cand:
                bs = int(rng.choice(cand))
        d = {"kind": kind, "nb": nb, "bs": bs, "N": int(rng.integers(1, 4)),
             "p": [0.1, 0.25, 0.5, 0.5, 0.9, 1.0][int(rng.integers(6))],
             "v": [0.0, 0.0, -1.0, 0.5, 2.0][int(rng.integers(5))],
             "case_seed": int(rng.integers(1 << 31))}
        if kind == "tab":
            d["shape"] = [int(rng.integers(1, dmax + 1))]
            d["grid"] = None if rng.random() < 0.5 else int(rng.integers(1, 8))
        elif kind == "ts":
            t_, w_ = int(rng.integers(1, dmax + 1)), int(rng.integers(1, 6))
            d["shape"] = [t_, w_]
            g = int(rng.integers(1, 8))
            d["grid"] = g if rng.random() < 0.5 else [g, w_]
        else:
            h_, w_ = int(rng.integers(1, dmax + 1)), int(rng.integers(1, dmax + 1))
            if h_ == w_:
                w_ = w_ % dmax + 1
            d["shape"] = [h_, w_, int(rng.choice([1, 3, 2]))]
            g = int(rng.integers(1, 8))
            d["grid"] = g if rng.random() < 0.4 else [g, int(rng.integers(1, 8))]
        if rng.random() < 0.15:
            d["const"] = [int(rng.integers(-3, 4)), int(rng.integers(1, 4))]
        if rng.random() < 0.2:
            # squeezing model + a last batch of exactly one masked input (or batch size 1)
            d["squeeze"] = True
            if nb >= 2 and rng.random() < 0.7:
                cand = [b for b in range(2, nb + 1) if nb % b == 1]
                d["bs"] = int(rng.choice(cand)) if cand else 1
            else:
                d["bs"] = 1
        cases.append(d)
    # malformed stream: time series, tuple grid whose second entry differs from the feature count
    for _ in range(2):
        w_ = int(rng.integers(2, 5))
        cases.append({"kind": "ts", "nb": 4, "bs": 2, "N": 1, "p": 0.5, "v": 0.0, "shape": [5, w_],
                      "grid": [2, w_ + 1], "malformed": True, "case_seed": int(rng.integers(1 << 31))})
    return cases


def corpus_cases():
    p = os.path.join(VERIF, "corpus", "C09")
    out = []
    if os.path.isdir(p):
        for fn in sorted(os.listdir(p)):
            if fn.endswith(".json"):
                out.append(json.load(open(os.path.join(p, fn))))
    return out


def check_mean(ctx):
    """support + 6-sigma sanity of the preservation probability over all grids drawn in this run"""
    for p, (ones, total) in ctx.stats.get("grid_cells_by_p", {}).items():
        pf = float(p)
        if pf >= 1.0 or total == 0:
            continue
        z = abs(ones - pf * total) / math.sqrt(total * pf * (1 - pf))
        ctx.stats.setdefault("preservation_z", {})[p] = round(z, 3)
        ctx.check_prop("preservation-mean-6sigma", z <= 6.0, {"aggregate": True, "p": pf, "ones": ones, "total": total},
                       {"z": z})


def run(ctx):
    for d in corpus_cases() + gen_cases(ctx):
        run_case(ctx, d)
    check_mean(ctx)


def replay(ctx, r):
    case = r["case"] if "case" in r else r["first_disagreement"][0]
    if case.get("aggregate"):
        # statistical clause: redraw grids with that probability and test the mean again
        from xplique.attributions import Rise
        g = np.array(Rise._get_masks((1, 16, 16, 1), 400, 8, case["p"]))
        st = ctx.stats.setdefault("grid_cells_by_p", {}).setdefault(str(case["p"]), [0, 0])
        st[0] += int(g.sum())
        st[1] += int(g.size)
        check_mean(ctx)
        ctx.case(case, True)
        return
    run_case(ctx, case)
