#!/venv/bin/python
"""./check <id> quick|thorough|--replay <path>  ->  harness/run.py"""
import importlib
import json
import os
import sys
import traceback

sys.path.insert(0, os.path.dirname(os.path.abspath(__file__)))
import common  # noqa: E402


def main():
    if len(sys.argv) < 3:
        print("usage: run.py <id> quick|thorough|--replay <path>")
        return 2
    prop = sys.argv[1]
    mode = sys.argv[2]
    seed = int(os.environ.get("VERIF_SEED", "0") or 0)
    replay = None
    if mode == "--replay":
        replay = json.load(open(sys.argv[3]))
        tier = replay.get("tier", "quick")
        seed = int(replay.get("seed", seed))
    else:
        tier = os.environ.get("VERIF_TIER", mode) if mode not in ("quick", "thorough") else mode
    try:
        mod = importlib.import_module(f"props.{prop.lower()}")
    except ModuleNotFoundError:
        print(f"no check for {prop}")
        return 2
    ctx = common.Ctx(prop, tier, seed)
    ctx.replay_mode = replay is not None
    # watchdog: a hung check is an infrastructure failure (exit 2), never a verdict
    import signal

    def _timeout(signum, frame):
        print(f"INFRA-ERROR {prop}: time limit exceeded ({tier})", file=sys.stderr, flush=True)
        os._exit(2)
    signal.signal(signal.SIGALRM, _timeout)
    signal.alarm(int(os.environ.get("VERIF_TIME_LIMIT", "2400" if tier == "quick" else "21600")))
    try:
        ctx.lean = common.lean_stage(prop, thorough=(tier == "thorough"))
        if ctx.lean.get("broken"):
            ctx.budget_scale = 3      # broken obligation: widen the failing-input search
        ctx.driver = common.Driver()
        common.quiet_tf()
        has_case = replay is not None and ("case" in replay or replay.get("first_disagreement"))
        try:
            if has_case and hasattr(mod, "replay"):
                mod.replay(ctx, replay)
            else:
                mod.run(ctx)
        except common.NonFiniteValue as e:
            # the implementation returned NaN / inf where the model (and the unchanged tree) has a number: a failure of the
            # implementation on the case being run, not of the machinery; the run stops at this case
            ctx.check_prop("implementation-returned-non-finite-values", False, getattr(ctx, "last_desc", None) or {},
                           {"error": str(e)})
        except (common.InfraError, KeyboardInterrupt):
            raise
        except Exception as e:  # noqa: BLE001
            last = getattr(ctx, "last_desc", None)
            # An exception after the implementation was called on a case.  (a) it was raised INSIDE the implementation (outside
            # ctx.impl_call, e.g. in a constructor): the implementation fails on a valid input - a property failure with that
            # case as replay.  (b) it was raised in the harness while processing what the implementation returned (unexpected
            # shape / type): the correspondence can no longer be checked - reported as a broken correspondence
            # (-> no-failing-input-found unless a predicate failed as well).  On the unchanged tree neither happens.
            tb = traceback.extract_tb(e.__traceback__)
            repo = os.path.realpath(common.REPO) + os.sep
            impl_frames = [f for f in tb if os.path.realpath(f.filename).startswith(repo)]
            msg = (type(e).__name__ + ": " + str(e))[:500]
            if not impl_frames and last is None:
                raise                   # nothing of the implementation was involved: a harness bug
            if impl_frames:
                f = impl_frames[-1]
                ctx.check_prop("implementation-raises", False, last or {"note": "raised before the first recorded case"},
                               {"exception": msg, "where": f"{os.path.relpath(f.filename, repo)}:{f.lineno} in {f.name}"})
            else:
                ctx.corr_failures.append(("harness-cannot-process-implementation-output", last,
                                          {"exception": msg, "at": [f"{os.path.basename(f.filename)}:{f.lineno}" for f in tb[-3:]]}))
                traceback.print_exc()

        rc = ctx.finish(mod.RULE, getattr(mod, "extra", lambda c: None)(ctx))
        return rc
    except common.InfraError as e:
        print(f"INFRA-ERROR {prop}: {e}", file=sys.stderr)
        return 2
    except Exception:
        traceback.print_exc()
        print(f"INFRA-ERROR {prop}: harness crashed", file=sys.stderr)
        return 2
    finally:
        if ctx.driver:
            ctx.driver.close()


if __name__ == "__main__":
    sys.exit(main())
