#!/venv/bin/python
"""./check <id> quick|thorough|--replay <path>  ->  harness/run.py"""
import importlib
import json
import os
import sys
import traceback

sys.path.insert(0, os.path.dirname(os.path.abspath(__file__)))
import common  # noqa: E402


def main():
    if len(sys.argv) < 3:
        print("usage: run.py <id> quick|thorough|--replay <path>")
        return 2
    prop = sys.argv[1]
    mode = sys.argv[2]
    seed = int(os.environ.get("VERIF_SEED", "0") or 0)
    replay = None
    if mode == "--replay":
        replay = json.load(open(sys.argv[3]))
        tier = replay.get("tier", "quick")
        seed = int(replay.get("seed", seed))
    else:
        tier = os.environ.get("VERIF_TIER", mode) if mode not in ("quick", "thorough") else mode
    try:
        mod = importlib.import_module(f"props.{prop.lower()}")
    except ModuleNotFoundError:
        print(f"no check for {prop}")
        return 2
    ctx = common.Ctx(prop, tier, seed)
    # watchdog: a hung check is an infrastructure failure (exit 2), never a verdict
    import signal

    def _timeout(signum, frame):
        print(f"INFRA-ERROR {prop}: time limit exceeded ({tier})", file=sys.stderr, flush=True)
        os._exit(2)
    signal.signal(signal.SIGALRM, _timeout)
    signal.alarm(int(os.environ.get("VERIF_TIME_LIMIT", "2400" if tier == "quick" else "21600")))
    try:
        ctx.lean = common.lean_stage(prop, thorough=(tier == "thorough"))
        if ctx.lean.get("broken"):
            ctx.budget_scale = 3      # broken obligation: widen the failing-input search
        ctx.driver = common.Driver()
        common.quiet_tf()
        has_case = replay is not None and ("case" in replay or replay.get("first_disagreement"))
        if has_case and hasattr(mod, "replay"):
            mod.replay(ctx, replay)
        else:
            mod.run(ctx)
        rc = ctx.finish(mod.RULE, getattr(mod, "extra", lambda c: None)(ctx))
        return rc
    except common.InfraError as e:
        print(f"INFRA-ERROR {prop}: {e}", file=sys.stderr)
        return 2
    except Exception:
        traceback.print_exc()
        print(f"INFRA-ERROR {prop}: harness crashed", file=sys.stderr)
        return 2
    finally:
        if ctx.driver:
            ctx.driver.close()


if __name__ == "__main__":
    sys.exit(main())
