#!/usr/bin/env python3
"""Translator lane: regenerate lean/XpModel/Gen/Arith.lean from /repo's CURRENT sources.

A fixed table of scalar index-arithmetic expressions is located in the source AST by
function and syntactic role, translated to Lean `Int` expressions, and emitted as one
`def` per expression.  The executable model *uses* these defs and the property theorems
are stated about them, so an edit of the source expression (`+ 1` dropped, `//` -> `/`,
`min` -> `max` ...) changes the def and makes `lake build XpProofs` fail at a named theorem.

If an expression cannot be found / translated (e.g. after a refactor), the committed
reference translation is emitted instead (so the model still builds) and the entry is
reported as `broken` in the status file; the check then treats the obligation as broken
(DESIGN 2.6) and runs the failing-input search.

Pure stdlib; runs under any python3.
"""
import ast
import json
import os
import sys

REPO = os.environ.get("XPLIQUE_REPO", "/repo")
HERE = os.path.dirname(os.path.abspath(__file__))
OUT = os.path.join(HERE, "..", "lean", "XpModel", "Gen", "Arith.lean")
STATUS = os.path.join(HERE, "..", "lean", "XpModel", "Gen", "status.json")


class Untranslatable(Exception):
    pass


def parse(path):
    with open(os.path.join(REPO, "xplique", path)) as f:
        return ast.parse(f.read())


def find_func(tree, name, cls=None):
    for node in ast.walk(tree):
        if isinstance(node, ast.ClassDef) and (cls is None or node.name == cls):
            for f in node.body:
                if isinstance(f, ast.FunctionDef) and f.name == name:
                    return f
    if cls is None:
        for node in ast.walk(tree):
            if isinstance(node, ast.FunctionDef) and node.name == name:
                return node
    raise Untranslatable(f"function {cls}.{name} not found")


def calls(node, fname):
    out = []
    for n in ast.walk(node):
        if isinstance(n, ast.Call):
            f = n.func
            if (isinstance(f, ast.Name) and f.id == fname) or \
               (isinstance(f, ast.Attribute) and f.attr == fname):
                out.append(n)
    out.sort(key=lambda n: (n.lineno, n.col_offset))
    return out


_CMP = {ast.Eq: "=", ast.NotEq: "≠", ast.Lt: "<", ast.LtE: "≤", ast.Gt: ">", ast.GtE: "≥"}


def lean(e, env):
    """scalar python expression -> Lean Int expression; env maps unparsed leaves to Lean vars"""
    u = ast.unparse(e)
    if u in env:
        return env[u]
    if isinstance(e, ast.Constant) and isinstance(e.value, int) and not isinstance(e.value, bool):
        return f"({e.value} : Int)"
    if isinstance(e, ast.UnaryOp) and isinstance(e.op, ast.USub):
        return f"(-{lean(e.operand, env)})"
    if isinstance(e, ast.BinOp):
        a, b = lean(e.left, env), lean(e.right, env)
        if isinstance(e.op, ast.Add):
            return f"({a} + {b})"
        if isinstance(e.op, ast.Sub):
            return f"({a} - {b})"
        if isinstance(e.op, ast.Mult):
            return f"({a} * {b})"
        if isinstance(e.op, ast.FloorDiv):
            return f"(Int.fdiv {a} {b})"
        if isinstance(e.op, ast.Mod):
            return f"(Int.fmod {a} {b})"
    if isinstance(e, ast.IfExp) and isinstance(e.test, ast.Compare) and len(e.test.ops) == 1 \
            and type(e.test.ops[0]) in _CMP:
        c = f"({lean(e.test.left, env)} {_CMP[type(e.test.ops[0])]} {lean(e.test.comparators[0], env)})"
        return f"(if {c} then {lean(e.body, env)} else {lean(e.orelse, env)})"
    if isinstance(e, ast.Compare) and len(e.ops) == 1 and isinstance(e.ops[0], ast.Eq):
        # a Python bool used as a number (int(a == b), or arithmetic on it): 1 if equal else 0
        return f"(if {lean(e.left, env)} = {lean(e.comparators[0], env)} then (1 : Int) else (0 : Int))"
    if isinstance(e, ast.Call):
        fn = e.func.id if isinstance(e.func, ast.Name) else \
            (e.func.attr if isinstance(e.func, ast.Attribute) else None)
        if fn in ("min", "max") and len(e.args) == 2 and not e.keywords:
            return f"({fn} {lean(e.args[0], env)} {lean(e.args[1], env)})"
        if fn == "ceil" and len(e.args) == 1 and isinstance(e.args[0], ast.BinOp) \
                and isinstance(e.args[0].op, ast.Div):
            # ceil(a / b) for b > 0  ==  -((-a) fdiv b)   (all signs of a)
            a, b = lean(e.args[0].left, env), lean(e.args[0].right, env)
            return f"(-(Int.fdiv (-{a}) {b}))"
        if fn == "floor" and len(e.args) == 1 and isinstance(e.args[0], ast.BinOp) \
                and isinstance(e.args[0].op, ast.Mult):
            # floor(x * p) with p a SYMBOLIC rational pn / pd (pd > 0)  ==  (x * pn) fdiv pd
            for x, p_ in ((e.args[0].left, e.args[0].right), (e.args[0].right, e.args[0].left)):
                r = env.get("RAT:" + ast.unparse(p_))
                if r:
                    return f"(Int.fdiv ({lean(x, env)} * {r[0]}) {r[1]})"
        if fn == "int" and len(e.args) == 1:
            return lean(e.args[0], env)
        if fn == "len" and len(e.args) == 1:
            return lean(e.args[0], env)
    raise Untranslatable("untranslatable: " + u)


# --------------------------------------------------------------------------------------
# finders: FunctionDef -> ast expression
# --------------------------------------------------------------------------------------
def nth_call(fname, k):
    def finder(fn):
        cs = calls(fn, fname)
        if len(cs) <= k:
            raise Untranslatable(f"call #{k} of {fname} not found in {fn.name}")
        return cs[k]
    return finder


def assign_value(target):
    """value of the (first) assignment `target = ...` in the function"""
    def finder(fn):
        for n in ast.walk(fn):
            if isinstance(n, ast.Assign) and len(n.targets) == 1 and ast.unparse(n.targets[0]) == target:
                return n.value
        raise Untranslatable(f"assignment to {target} not found in {fn.name}")
    return finder


def listcomp_elt(target, k=0):
    """element expression of the k-th list comprehension assigned to `target`"""
    def finder(fn):
        found = []
        for n in ast.walk(fn):
            if isinstance(n, ast.Assign) and len(n.targets) == 1 and ast.unparse(n.targets[0]) == target \
                    and isinstance(n.value, ast.ListComp):
                found.append(n)
        found.sort(key=lambda n: n.lineno)
        if len(found) <= k:
            raise Untranslatable(f"list comprehension #{k} for {target} not found")
        return found[k].value.elt
    return finder


def kwarg_of_call(fname, k, arg_index):
    def finder(fn):
        c = nth_call(fname, k)(fn)
        if len(c.args) <= arg_index:
            raise Untranslatable(f"arg {arg_index} of {fname} missing")
        return c.args[arg_index]
    return finder


def slice_bound(target, which):
    """lower / upper bound of the first slice `xs[lo:hi]` found in the first assignment
    `target = ...` whose value contains a slice (a missing lower bound is the constant 0)"""
    def finder(fn):
        for n in ast.walk(fn):
            if isinstance(n, ast.Assign) and len(n.targets) == 1 and ast.unparse(n.targets[0]) == target:
                for m in ast.walk(n.value):
                    if isinstance(m, ast.Subscript) and isinstance(m.slice, ast.Slice) and m.slice.step is None:
                        b = m.slice.lower if which == "lower" else m.slice.upper
                        if b is None:
                            if which == "lower":
                                return ast.copy_location(ast.Constant(0), m)
                            raise Untranslatable(f"slice of {target} has no upper bound")
                        return b
        raise Untranslatable(f"slice assigned to {target} not found in {fn.name}")
    return finder


OCC_ENV = {"input_shape[0]": "dim", "input_shape[1]": "dim",
           "patch_size": "p", "patch_size[0]": "p", "patch_size[1]": "p",
           "patch_stride": "s", "patch_stride[0]": "s", "patch_stride[1]": "s",
           "x": "i", "y": "i"}
GS_ENV = {"batch_size": "bs", "self.batch_size": "bs", "self.nb_samples": "nb",
          "nb_samples": "nb",
          "perturbation_batch_size": "pbs", "self.perturbation_batch_size": "pbs",
          "total_perturbed_samples": "tot"}

SPLIT_ENV = {"nb_design": "n", "i": "i"}
# `int(self.patch_size * 0.80)`: the float constant 0.80 is translated as the rational 4/5 (floor division);
# any other constant is untranslatable (broken obligation)
CRAFT_ENV = {"len(dataset)": "len", "batch_size": "bs", "i": "i",
             "self.patch_size * 0.8": "(Int.fdiv (p * (4 : Int)) (5 : Int))"}

# name, params, file, class, function, finder, env, reference translation
TABLE = [
    ("occlNbAnchorsTab", "dim p s", "attributions/occlusion.py", "Occlusion", "_get_masks",
     nth_call("ceil", 0), OCC_ENV, "(-(Int.fdiv (-((dim - p) + (1 : Int))) s))"),
    ("occlNbAnchorsX", "dim p s", "attributions/occlusion.py", "Occlusion", "_get_masks",
     nth_call("ceil", 1), OCC_ENV, "(-(Int.fdiv (-((dim - p) + (1 : Int))) s))"),
    ("occlNbAnchorsY", "dim p s", "attributions/occlusion.py", "Occlusion", "_get_masks",
     nth_call("ceil", 2), OCC_ENV, "(-(Int.fdiv (-((dim - p) + (1 : Int))) s))"),
    ("occlAnchorTab", "i s", "attributions/occlusion.py", "Occlusion", "_get_masks",
     listcomp_elt("x_anchors", 0), OCC_ENV, "(i * s)"),
    ("occlAnchorX", "i s", "attributions/occlusion.py", "Occlusion", "_get_masks",
     listcomp_elt("x_anchors", 1), OCC_ENV, "(i * s)"),
    ("occlAnchorY", "i s", "attributions/occlusion.py", "Occlusion", "_get_masks",
     listcomp_elt("y_anchors", 0), OCC_ENV, "(i * s)"),
    ("igInputsPerBatch", "bs steps", "attributions/integrated_gradients.py", "IntegratedGradients",
     "explain", nth_call("max", 0), {"batch_size": "bs", "self.steps": "steps"},
     "(max (Int.fdiv bs steps) (1 : Int))"),
    ("gsPbs", "bs nb", "attributions/gradient_statistics/gradient_statistic.py", "GradientStatistic",
     "explain", assign_value("perturbation_batch_size"), GS_ENV, "(min bs nb)"),
    ("gsIbs", "bs pbs", "attributions/gradient_statistics/gradient_statistic.py", "GradientStatistic",
     "explain", assign_value("inputs_batch_size"), GS_ENV, "(max (1 : Int) (Int.fdiv bs pbs))"),
    ("gsChunk", "pbs nb tot", "attributions/gradient_statistics/gradient_statistic.py",
     "GradientStatistic", "explain", assign_value("nb_perturbations"), GS_ENV,
     "(min pbs (nb - tot))"),
    ("mufPbs", "bs nb", "metrics/fidelity.py", "MuFidelity", "__init__",
     assign_value("self.perturbation_batch_size"), GS_ENV, "(min bs nb)"),
    ("mufIbs", "bs pbs", "metrics/fidelity.py", "MuFidelity", "__init__",
     assign_value("self.inputs_batch_size"), GS_ENV, "(max (1 : Int) (Int.fdiv bs pbs))"),
    ("mufChunk", "pbs nb tot", "metrics/fidelity.py", "MuFidelity", "evaluate",
     assign_value("nb_perturbations"), GS_ENV, "(min pbs (nb - tot))"),
    # --- C08: sobol_estimators.py split_abc slice bounds -------------------------------------
    ("splitALo", "n", "attributions/global_sensitivity_analysis/sobol_estimators.py", "SobolEstimator",
     "split_abc", slice_bound("sampling_a", "lower"), SPLIT_ENV, "(0 : Int)"),
    ("splitAHi", "n", "attributions/global_sensitivity_analysis/sobol_estimators.py", "SobolEstimator",
     "split_abc", slice_bound("sampling_a", "upper"), SPLIT_ENV, "n"),
    ("splitBLo", "n", "attributions/global_sensitivity_analysis/sobol_estimators.py", "SobolEstimator",
     "split_abc", slice_bound("sampling_b", "lower"), SPLIT_ENV, "n"),
    ("splitBHi", "n", "attributions/global_sensitivity_analysis/sobol_estimators.py", "SobolEstimator",
     "split_abc", slice_bound("sampling_b", "upper"), SPLIT_ENV, "(n * (2 : Int))"),
    ("splitCLo", "n i", "attributions/global_sensitivity_analysis/sobol_estimators.py", "SobolEstimator",
     "split_abc", slice_bound("replication_c", "lower"), SPLIT_ENV, "((n * (2 : Int)) + (n * i))"),
    ("splitCHi", "n i", "attributions/global_sensitivity_analysis/sobol_estimators.py", "SobolEstimator",
     "split_abc", slice_bound("replication_c", "upper"), SPLIT_ENV,
     "((n * (2 : Int)) + (n * (i + (1 : Int))))"),
    # --- C20: craft_torch.py _batch_inference chunking and patch stride ------------------------
    ("craftNbBatches", "len bs", "concepts/craft_torch.py", None, "_batch_inference",
     nth_call("ceil", 0), CRAFT_ENV, "(-(Int.fdiv (-len) bs))"),
    ("craftStart", "i bs", "concepts/craft_torch.py", None, "_batch_inference",
     listcomp_elt("start_ids", 0), CRAFT_ENV, "(i * bs)"),
    ("craftBatchLo", "i bs", "concepts/craft_torch.py", None, "_batch_inference",
     slice_bound("batch", "lower"), CRAFT_ENV, "i"),
    ("craftBatchHi", "i bs", "concepts/craft_torch.py", None, "_batch_inference",
     slice_bound("batch", "upper"), CRAFT_ENV, "(i + bs)"),
    ("craftStride", "p", "concepts/craft_torch.py", "CraftTorch", "_extract_patches",
     assign_value("strides"), CRAFT_ENV, "(Int.fdiv (p * (4 : Int)) (5 : Int))"),
]


# ---- C07 (Lime / KernelShap): elementwise tensor expressions read as scalar arithmetic ----------
def c07_rewritten(target, subst):
    """value of `target = ...` with TF calls replaced: subst maps a called function name
    (`reduce_max`, `ones`, `multiply`) to 'name:<var>' | 'const:<int>' | 'binop:mul'"""
    def finder(fn):
        val = assign_value(target)(fn)

        class Rw(ast.NodeTransformer):
            def visit_Call(self, node):
                self.generic_visit(node)
                f = node.func
                name = f.attr if isinstance(f, ast.Attribute) else (f.id if isinstance(f, ast.Name) else None)
                how = subst.get(name)
                if how is None:
                    return node
                if how.startswith("name:"):
                    new = ast.Name(id=how[5:], ctx=ast.Load())
                elif how.startswith("const:"):
                    if not (node.args and isinstance(node.args[0], ast.Constant) and node.args[0].value == 1):
                        raise Untranslatable("tf.ones argument is not 1: " + ast.unparse(node))
                    new = ast.Constant(value=int(how[6:]))
                elif how == "binop:mul":
                    if len(node.args) != 2:
                        raise Untranslatable("multiply needs two arguments")
                    new = ast.BinOp(left=node.args[0], op=ast.Mult(), right=node.args[1])
                else:
                    raise Untranslatable("bad substitution")
                return ast.copy_location(new, node)
        import copy
        out = ast.fix_missing_locations(Rw().visit(copy.deepcopy(val)))
        return out
    return finder


KS_ENV = {"num_features": "F", "list_features_indexes": "k"}
TABLE += [
    ("limeNumFeatures", "mx", "attributions/lime.py", "Lime", "explain",
     c07_rewritten("num_features", {"reduce_max": "name:mx", "ones": "const:1"}), {"mx": "mx"},
     "(mx + (1 : Int))"),
    ("kshapProbNum", "F", "attributions/kernel_shap.py", "KernelShap", "_get_probs_nb_selected_feature",
     assign_value("num"), KS_ENV, "(F - (1 : Int))"),
    ("kshapProbDen", "k F", "attributions/kernel_shap.py", "KernelShap", "_get_probs_nb_selected_feature",
     c07_rewritten("denom", {"multiply": "binop:mul"}), KS_ENV, "(k * (F - k))"),
]


# ---- C19 (feature visualisation): number of frequency columns kept by fft_2d_freq ----------------
def slice_upper(target):
    """upper bound of the slice in `target = <expr>[:upper]`"""
    def finder(fn):
        val = assign_value(target)(fn)
        if isinstance(val, ast.Subscript) and isinstance(val.slice, ast.Slice) and val.slice.upper is not None \
                and val.slice.lower is None:
            return val.slice.upper
        raise Untranslatable(f"{target} is not assigned from a [:upper] slice")
    return finder


TABLE += [
    ("fftCutOff", "w", "features_visualizations/preconditioning.py", None, "fft_2d_freq",
     assign_value("cut_off"), {"width": "w"}, "(if (Int.fmod w (2 : Int)) = (1 : Int) then (1 : Int) else (0 : Int))"),
    ("fftColsGen", "w cut", "features_visualizations/preconditioning.py", None, "fft_2d_freq",
     slice_upper("freq_x"), {"width": "w", "cut_off": "cut"}, "(((Int.fdiv w (2 : Int)) + (1 : Int)) + cut)"),
]


# C09 / C05 (RISE): `int(<float expression>)` upsample sizes of Rise._apply_masks.
# The float expression (`H * (1.0 + 1.0 / h)`) is normalised symbolically to one fraction
# num/den over the integer leaves and re-emitted as the integer expression `num // den`
# (== int(...) for non-negative values in exact arithmetic), which `lean` then translates.
# --------------------------------------------------------------------------------------
def _rat_norm(e, env):
    """python scalar expression with integer-valued float constants -> (num, den) python source strings"""
    u = ast.unparse(e)
    if u in env:
        return u, "1"
    if isinstance(e, ast.Constant) and isinstance(e.value, (int, float)) and not isinstance(e.value, bool) \
            and float(e.value) == int(e.value):
        return str(int(e.value)), "1"

    def mul(a, b):
        if a == "1":
            return b
        if b == "1":
            return a
        return f"({a}) * ({b})"
    if isinstance(e, ast.BinOp):
        (n1, d1), (n2, d2) = _rat_norm(e.left, env), _rat_norm(e.right, env)
        if isinstance(e.op, (ast.Add, ast.Sub)):
            op = "+" if isinstance(e.op, ast.Add) else "-"
            if d1 == d2:
                return f"({n1}) {op} ({n2})", d1
            return f"({mul(n1, d2)}) {op} ({mul(n2, d1)})", mul(d1, d2)
        if isinstance(e.op, ast.Mult):
            return mul(n1, n2), mul(d1, d2)
        if isinstance(e.op, ast.Div):
            return mul(n1, d2), mul(d1, n2)
    raise Untranslatable("not a rational expression: " + u)


def int_of_float_expr(k, env):
    """k-th `int(...)` call of the function, rewritten as the integer expression num // den"""
    def finder(fn):
        c = nth_call("int", k)(fn)
        if len(c.args) != 1 or c.keywords:
            raise Untranslatable("int() with one argument expected")
        num, den = _rat_norm(c.args[0], env)
        text = num if den == "1" else f"(({num}) // ({den}))"
        new = ast.parse(text, mode="eval").body
        for n in ast.walk(new):
            n.lineno, n.col_offset = c.lineno, c.col_offset
        return new
    return finder


RISE_ENV = {"single_input.shape[0]": "H", "single_input.shape[1]": "W",
            "binary_masks.shape[1]": "h", "binary_masks.shape[2]": "w"}

TABLE += [
    # time series: (int(T * (1.0 + 1.0 / t)), int(W));  images: (int(H * (1.0 + 1.0 / h)), int(W * (1.0 + 1.0 / w)))
    ("riseUpTsT", "H W h w", "attributions/rise.py", "Rise", "_apply_masks",
     int_of_float_expr(0, RISE_ENV), RISE_ENV, "(Int.fdiv (H * (h + (1 : Int))) h)"),
    ("riseUpTsW", "H W h w", "attributions/rise.py", "Rise", "_apply_masks",
     int_of_float_expr(1, RISE_ENV), RISE_ENV, "W"),
    ("riseUpImgH", "H W h w", "attributions/rise.py", "Rise", "_apply_masks",
     int_of_float_expr(2, RISE_ENV), RISE_ENV, "(Int.fdiv (H * (h + (1 : Int))) h)"),
    ("riseUpImgW", "H W h w", "attributions/rise.py", "Rise", "_apply_masks",
     int_of_float_expr(3, RISE_ENV), RISE_ENV, "(Int.fdiv (W * (w + (1 : Int))) w)"),
]


# ---- C16 / C17 / C18 (example-based search): batch-size clamp, cardinality, flattened (batch, position) index ----
HZ_ENV = {"batch_size": "bs", "cases_dataset.shape[0]": "n"}
FLAT_ENV = {"search_output['indices'][:, :, 0]": "i0", "self.batch_size": "bs",
            "search_output['indices'][:, :, 1]": "i1"}
TABLE += [
    ("hzBatch", "bs n", "example_based/datasets_operations/harmonize.py", None, "harmonize_datasets",
     nth_call("min", 0), HZ_ENV, "(min bs n)"),
    ("hzCard", "n bs", "example_based/datasets_operations/harmonize.py", None, "harmonize_datasets",
     nth_call("ceil", 0), HZ_ENV, "(-(Int.fdiv (-n) bs))"),
    ("hzBatchTorch", "bs n", "example_based/datasets_operations/harmonize.py", None, "harmonize_datasets",
     nth_call("min", 1), HZ_ENV, "(min bs n)"),
    ("hzCardTorch", "n bs", "example_based/datasets_operations/harmonize.py", None, "harmonize_datasets",
     nth_call("ceil", 1), HZ_ENV, "(-(Int.fdiv (-n) bs))"),
    # torch DataLoader branch: the nominal batch size clamped to the size of the first batch the loader yields
    ("hzBatchLoader", "bs n", "example_based/datasets_operations/harmonize.py", None, "harmonize_datasets",
     nth_call("min", 2), dict(HZ_ENV, **{"tf.shape(next(iter(cases_dataset)))[0].numpy()": "n"}), "(min bs n)"),
    ("flatIndex", "i0 bs i1", "example_based/prototypes.py", "Prototypes", "format_search_output",
     assign_value("flatten_indices"), FLAT_ENV, "((i0 * bs) + i1)"),
]


# ---- C01 / C04: default batch size (`self.batch_size or <default>`) ------------------
def or_default(target):
    """right operand of `target = <a> or <default>`"""
    def finder(fn):
        for n in ast.walk(fn):
            if isinstance(n, ast.Assign) and len(n.targets) == 1 and ast.unparse(n.targets[0]) == target \
                    and isinstance(n.value, ast.BoolOp) and isinstance(n.value.op, ast.Or) \
                    and len(n.value.values) == 2:
                return n.value.values[1]
        raise Untranslatable(f"`{target} = ... or ...` not found in {fn.name}")
    return finder


TABLE += [
    ("gsDefaultBs", "n nb", "attributions/gradient_statistics/gradient_statistic.py", "GradientStatistic",
     "explain", or_default("batch_size"), {"inputs": "n", "self.nb_samples": "nb"}, "(n * nb)"),
    ("igDefaultBs", "n", "attributions/integrated_gradients.py", "IntegratedGradients",
     "explain", or_default("batch_size"), {"inputs": "n"}, "n"),
]


# ---- C14 CausalFidelity (p = pn / pd kept symbolic) ---------------------------------------------
def if_assign(target):
    """`if <test>: target = value` (no else)  ->  the expression `value if <test> else target`"""
    def finder(fn):
        for n in ast.walk(fn):
            if isinstance(n, ast.If) and not n.orelse and len(n.body) == 1 and isinstance(n.body[0], ast.Assign) \
                    and len(n.body[0].targets) == 1 and ast.unparse(n.body[0].targets[0]) == target:
                e = ast.IfExp(test=n.test, body=n.body[0].value, orelse=ast.Name(id=target, ctx=ast.Load()))
                return ast.copy_location(e, n)
        raise Untranslatable(f"`if ...: {target} = ...` not found in {fn.name}")
    return finder


# one env per row: only the row's own parameters may occur (anything else is untranslatable)
CAUSAL_M_ENV = {"self.nb_features": "nf", "RAT:max_percentage_perturbed": ("pn", "pd")}
CAUSAL_S_ENV = {"steps": "steps", "self.max_nb_perturbed": "maxnb"}
CAUSAL_L_ENV = {"self.steps": "steps", "self.max_nb_perturbed": "maxnb"}
TABLE += [
    ("causalMaxNb", "nf pn pd", "metrics/fidelity.py", "CausalFidelity", "__init__",
     assign_value("self.max_nb_perturbed"), CAUSAL_M_ENV, "(Int.fdiv (nf * pn) pd)"),
    ("causalSteps", "steps maxnb", "metrics/fidelity.py", "CausalFidelity", "__init__",
     if_assign("steps"), CAUSAL_S_ENV, "(if (steps = (-(1 : Int))) then maxnb else steps)"),
    ("causalLinStart", "maxnb steps", "metrics/fidelity.py", "CausalFidelity", "detailed_evaluate",
     kwarg_of_call("linspace", 0, 0), CAUSAL_L_ENV, "(0 : Int)"),
    ("causalLinStop", "maxnb steps", "metrics/fidelity.py", "CausalFidelity", "detailed_evaluate",
     kwarg_of_call("linspace", 0, 1), CAUSAL_L_ENV, "maxnb"),
    ("causalLinNum", "maxnb steps", "metrics/fidelity.py", "CausalFidelity", "detailed_evaluate",
     kwarg_of_call("linspace", 0, 2), CAUSAL_L_ENV, "(steps + (1 : Int))"),
]


# ---- C11 (TorchWrapper): axis lists of the np.moveaxis calls ------------------------------------
def list_elt_of_call_arg(fname, k, arg_index, elt_index):
    """element `elt_index` of the list literal passed as positional argument `arg_index` to the k-th call of fname"""
    def finder(fn):
        c = nth_call(fname, k)(fn)
        if len(c.args) <= arg_index or not isinstance(c.args[arg_index], (ast.List, ast.Tuple)):
            raise Untranslatable(f"arg {arg_index} of {fname} is not a list literal")
        elts = c.args[arg_index].elts
        if len(elts) != 3:
            raise Untranslatable(f"arg {arg_index} of {fname}: expected 3 axes, found {len(elts)}")
        return elts[elt_index]
    return finder


TABLE += [
    # C11: axis lists of the two np.moveaxis calls of TorchWrapper (dummy parameter `u`)
    ("twInSrc0", "u", "wrappers/pytorch.py", "TorchWrapper", "np_img_to_torch",
     list_elt_of_call_arg("moveaxis", 0, 1, 0), {}, "(3 : Int)"),
    ("twInSrc1", "u", "wrappers/pytorch.py", "TorchWrapper", "np_img_to_torch",
     list_elt_of_call_arg("moveaxis", 0, 1, 1), {}, "(1 : Int)"),
    ("twInSrc2", "u", "wrappers/pytorch.py", "TorchWrapper", "np_img_to_torch",
     list_elt_of_call_arg("moveaxis", 0, 1, 2), {}, "(2 : Int)"),
    ("twInDst0", "u", "wrappers/pytorch.py", "TorchWrapper", "np_img_to_torch",
     list_elt_of_call_arg("moveaxis", 0, 2, 0), {}, "(1 : Int)"),
    ("twInDst1", "u", "wrappers/pytorch.py", "TorchWrapper", "np_img_to_torch",
     list_elt_of_call_arg("moveaxis", 0, 2, 1), {}, "(2 : Int)"),
    ("twInDst2", "u", "wrappers/pytorch.py", "TorchWrapper", "np_img_to_torch",
     list_elt_of_call_arg("moveaxis", 0, 2, 2), {}, "(3 : Int)"),
    ("twOutSrc0", "u", "wrappers/pytorch.py", "TorchWrapper", "call",
     list_elt_of_call_arg("moveaxis", 0, 1, 0), {}, "(1 : Int)"),
    ("twOutSrc1", "u", "wrappers/pytorch.py", "TorchWrapper", "call",
     list_elt_of_call_arg("moveaxis", 0, 1, 1), {}, "(2 : Int)"),
    ("twOutSrc2", "u", "wrappers/pytorch.py", "TorchWrapper", "call",
     list_elt_of_call_arg("moveaxis", 0, 1, 2), {}, "(3 : Int)"),
    ("twOutDst0", "u", "wrappers/pytorch.py", "TorchWrapper", "call",
     list_elt_of_call_arg("moveaxis", 0, 2, 0), {}, "(3 : Int)"),
    ("twOutDst1", "u", "wrappers/pytorch.py", "TorchWrapper", "call",
     list_elt_of_call_arg("moveaxis", 0, 2, 1), {}, "(1 : Int)"),
    ("twOutDst2", "u", "wrappers/pytorch.py", "TorchWrapper", "call",
     list_elt_of_call_arg("moveaxis", 0, 2, 2), {}, "(2 : Int)"),
]


def generate():
    status = {}
    lines = [
        "/-",
        "  GENERATED by harness/gen_arith.py from /repo's current sources -- do not edit.",
        "  One def per scalar index-arithmetic expression of the anchored code.",
        "-/",
        "namespace Xp.Gen",
        "",
    ]
    trees = {}
    for name, params, path, cls, fn, finder, env, ref in TABLE:
        entry = {"file": path, "function": f"{cls}.{fn}", "reference": ref}
        try:
            if path not in trees:
                trees[path] = parse(path)
            f = find_func(trees[path], fn, cls)
            e = finder(f)
            entry["source"] = ast.unparse(e)
            entry["line"] = e.lineno
            body = lean(e, env)
            entry["lean"] = body
            entry["ok"] = True
            entry["changed"] = (body != ref)
        except (Untranslatable, OSError, SyntaxError) as ex:
            entry["ok"] = False
            entry["error"] = str(ex)
            entry["changed"] = True
            body = ref
        status[name] = entry
        src = entry.get("source", "<not found: reference translation used>")
        lines.append(f"/-- `{path}` `{cls}.{fn}`: `{src}` -/")
        plist = " ".join(params.split())
        lines.append(f"def {name} ({plist} : Int) : Int := {body}")
        lines.append("")
    lines.append("end Xp.Gen")
    text = "\n".join(lines) + "\n"
    os.makedirs(os.path.dirname(OUT), exist_ok=True)
    old = None
    if os.path.exists(OUT):
        with open(OUT) as f:
            old = f.read()
    if old != text:          # keep mtime stable when nothing changed (no rebuild)
        with open(OUT, "w") as f:
            f.write(text)
    with open(STATUS, "w") as f:
        json.dump(status, f, indent=1, sort_keys=True)
    return status


if __name__ == "__main__":
    st = generate()
    bad = [k for k, v in st.items() if not v["ok"]]
    chg = [k for k, v in st.items() if v["ok"] and v["changed"]]
    print(f"gen_arith: {len(st)} defs, {len(chg)} differ from reference {chg}, {len(bad)} not extracted {bad}")
    sys.exit(0)
