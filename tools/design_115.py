#!/usr/bin/env python3
"""regenerate DESIGN.md section 11.5 (seeded changes) from seeded/*/meta.json"""
import json, os, re, subprocess
root = "/verif/seeded"
metas = {n: json.load(open(f"{root}/{n}/meta.json")) for n in sorted(os.listdir(root))}
def rnd(n, m): return m.get("round", 2 if "-r2-" in n else 3 if "-r3-" in n else 1)
stats = {}
for n, m in metas.items():
    r = rnd(n, m); res = " ".join(m["checks"].values())
    s = stats.setdefault(r, [0, 0, 0])
    s[0] += 1
    s[1] += ("initially MISSED" in res)
    s[2] += ("no-failing-input-found" in res and "initially MISSED" not in res)
tot = sum(s[0] for s in stats.values()); miss = sum(s[1] for s in stats.values())
lines = []
lines.append("### 11.5 Seeded changes (independent sub-agents) and which checks catch them\n")
lines.append(f"""{tot} changes were produced by fresh sub-agents that were given ONLY the text of one property and a scratch git
worktree of /repo (nothing from /verif), two per property and round (three rounds), each required to keep the code running and the
stable tests passing and to need something specific to manifest; from round 2 on the agents were also told the earlier
changes for their property (one line each) and asked for a different function / clause. Each change was kept only after
I confirmed in a scratch worktree that its `demo.py` exits 0 on the unchanged tree and 1 with `patch.diff` applied (the
authors ran the stable tests of the touched modules with the patch applied; one patch was also run through the whole
pinned suite with `tools/seed_tests.sh`: 104 / 104 stable tests pass). Checks were run against the patched worktree
(`tools/seed_run.sh`, i.e. `XPLIQUE_REPO` / `PYTHONPATH` pointed at it, from an rsync copy of /verif) because other jobs
needed /repo untouched; `tools/seed_eval.sh` applies a patch to /repo itself and undoes it.
""")
per = "; ".join(f"round {r}: {s[0] - s[1]} of {s[0]} detected by the checks as they stood" +
                (f" ({s[2]} of them first as `no-failing-input-found`)" if s[2] else "") for r, s in sorted(stats.items()))
lines.append(f"""**Result: {per}. Every miss led to a strengthened generator / predicate (never to a weakened one), after which all
{tot} are reported as VIOLATION with a replay.** The misses fall in these groups: (i) *multi-call state* — one object
called several times or several objects of one class in a process (C04, C11, C13, C15, C16, C17, C20, C08 samplers, C07
/ C05 carry-over): "reuse" families were added; (ii) *configuration coverage* — an option or data shape the generator
never produced (signed segmentation masks, `estimator_batch_size`, `output_layer`, several dataset batches, tiny-magnitude
cosine, strip images, asymmetric distances, kernels with a non-constant diagonal, default objective names, other input
sizes after `fit`, soft class vectors in detection targets, squeezing callables, Lime's cosine kernel): added;
(iii) a predicate that demanded more than the property (C15 neighbour grouping) was relaxed while the value clause
still catches the change; (iv) a refactoring that only defeated the translator (C11 axis lists, C06 helper) was first
reported without a failing input, the search space was then widened until it produced one; (v) *numerical range* (round 3) —
the generated data were small integers around 0, so a formula that is algebraically equal but cancels in float32
(`||a||^2 - 2<a,b> + ||b||^2` for a squared distance in Lime's kernel, in the rbf kernel of the prototype searches, in
Jansen's estimator), a threshold / floor (IG's "equal to the baseline" epsilon, a variance floor) or a float32 staging
buffer for labels was invisible: families with a large common offset (4096), inputs scaled by 2^-40 .. 2^30, logits
scaled by 2^-18 .. 2^12 and labels above 2^24 were added - all keep float32 exact, so they cost no tolerance;
(vi) *identity vs value* (round 3) — the same NumPy buffers rewritten in place between calls, a sibling Keras model with
the same name and shapes, segment ids that do not follow the raster scan, norms of different orders ranking cases
differently, Rise with draws that matter: added; (vii) one change (C15, rank correlation without scipy) was first
"detected" for the wrong reason - the harness wrapped `fidelity.spearmanr`, which the change removes - see 11.4.
""")
lines.append("""At the end of session 3 every stored change was re-run against the final checks (`tools/seed_regress.py`, scratch worktrees at
/repo's HEAD, which includes the two DataLoader fixes): all 120 patches still apply, 127 of the 129 recorded (change, check)
pairs report VIOLATION and the other two are the pairs recorded below as not detecting (`MISSED by C01` - caught by C13 - and
`not run`): no regression. The 40 round-3 changes were also re-run with `VERIF_SEED=1`: all 42 recorded pairs report VIOLATION (the
families added in round 3 are produced in fixed numbers per run, not left to the seed). The full pinned suite was run on /repo's HEAD as well: the 104 stable tests pass (109 pass in all -
the five `test_torch.py` tests that exercise DataLoaders pass since D17 / D18).
""")
lines.append(subprocess.check_output(["python3", "/verif/tools/seed_table.py"], text=True))
txt = open("/verif/DESIGN.md").read()
a = txt.index("### 11.5 Seeded changes"); b = txt.index("### 11.6 ")
open("/verif/DESIGN.md", "w").write(txt[:a] + "\n".join(lines) + "\n" + txt[b:])
print(stats)
