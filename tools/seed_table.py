#!/usr/bin/env python3
"""print the markdown table of kept seeded changes (DESIGN 11.5) from seeded/*/meta.json"""
import json, os
root = "/verif/seeded"
print("| seeded change (seeded/<name>/) | what it is / what it needs to manifest | result |")
print("|---|---|---|")
n = miss = 0
for name in sorted(os.listdir(root)):
    m = json.load(open(os.path.join(root, name, "meta.json")))
    s = m.get("summary")
    if not s:
        needs = " ".join(m["needs_to_manifest"].split())
        s = needs[:260] + ("…" if len(needs) > 260 else "")
    res = "; ".join(f"**{k}**: {v}" for k, v in m["checks"].items())
    n += 1
    miss += "initially MISSED" in res
    print(f"| `{name}` | {s} | {res} |")
print(f"\n<!-- {n} seeded changes, {miss} initially missed -->")
