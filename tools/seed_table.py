#!/usr/bin/env python3
"""print the markdown table of kept seeded changes (DESIGN 11.4) from seeded/*/meta.json"""
import json, os
root = "/verif/seeded"
print("| seeded change | breaks | what it needs to manifest | result of the checks |")
print("|---|---|---|---|")
for name in sorted(os.listdir(root)):
    m = json.load(open(os.path.join(root, name, "meta.json")))
    needs = " ".join(m["needs_to_manifest"].split())
    # keep the first two sentences
    short = needs[:260] + ("…" if len(needs) > 260 else "")
    res = "; ".join(f"{k}: {v}" for k, v in m["checks"].items())
    print(f"| `{name}` | {m['breaks_property']} | {short} | {res} |")
