#!/bin/bash
# tools/seed_run.sh <worktree> <patch.diff> <id> [<id>...]: run quick checks against a scratch worktree with the patch applied
# (used while other jobs need /repo untouched; final confirmation uses tools/seed_eval.sh on /repo itself)
WT=$1; P=$(readlink -f "$2"); shift; shift
git -C $WT checkout -- . ; git -C $WT apply "$P" || { echo "patch does not apply"; exit 2; }
V=${VERIF_COPY:-/verif}
[ "$V" != /verif ] && rsync -a --delete --exclude .git /verif/ $V/
cd $V
for id in "$@"; do
  out=$(PYTHONPATH=$WT XPLIQUE_REPO=$WT VERIF_SEED=${VERIF_SEED:-0} timeout 1500 /venv/bin/python harness/run.py $id quick 2>&1); rc=$?
  echo "== $id rc=$rc"; echo "$out" | grep -E "VIOLATION|KNOWN-FINDING|INFRA|^\[$id\]" | cut -c1-250
  [ -f replays/$id-${VERIF_SEED:-0}-quick.json ] && [ $rc = 1 ] && python3 -c "
import json; r=json.load(open('replays/$id-${VERIF_SEED:-0}-quick.json')); print('   replay:', r.get('clause'), r.get('signature'), str(r.get('detail'))[:200])"
done
git -C $WT checkout -- . ; python3 $V/harness/gen_arith.py > /dev/null
