#!/bin/bash
# tools/seed_tests.sh <worktree> <patch.diff>: run the pinned test-suite on a scratch worktree with the patch applied and
# report which of the baseline's stable_pass tests no longer pass (none = the seeded change "passes the existing tests")
WT=$1; P=$(readlink -f "$2")
git -C $WT checkout -- . ; git -C $WT apply "$P" || { echo "patch does not apply"; exit 2; }
J=$(mktemp /tmp/junit.XXXX.xml)
(
 cd $WT && TF_ENABLE_ONEDNN_OPTS=0 PYTHONPATH=$WT /venv/bin/python -m pytest -q -p no:cacheprovider --timeout=900 --continue-on-collection-errors --junitxml=$J >/dev/null 2>&1)
python3 - "$J" <<'PY'
import json, sys, xml.etree.ElementTree as ET
base = json.load(open("/root/.vp/BASELINE.json"))["stable_pass"]
ok = set()
for tc in ET.parse(sys.argv[1]).getroot().iter("testcase"):
    if not any(c.tag in ("failure", "error", "skipped") for c in tc):
        ok.add(tc.get("classname") + "::" + tc.get("name")); ok.add(tc.get("classname").replace(".", "/") + ".py::" + tc.get("name"))
miss = [t for t in base if t not in ok and t.replace("/", ".").replace(".py::", "::") not in ok]
print("stable_pass:", len(base), "not passing:", len(miss), miss[:5])
PY
rm -f $J; git -C $WT checkout -- .
