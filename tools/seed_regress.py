#!/usr/bin/env python3
"""tools/seed_regress.py <workers> <outdir> [name-filter]: re-run every stored seeded change (seeded/*/patch.diff) against the
current checks: scratch worktree of /repo HEAD + rsync copy of /verif per worker; records rc per (seed, property)."""
import glob, json, multiprocessing, os, subprocess, sys, time
REPO = "/repo"


def worker(args):
    k, names, outdir = args
    wt = f"{outdir}/wt_{k}"; vc = f"{outdir}/verif_{k}"
    if not os.path.isdir(wt):
        subprocess.check_call(["git", "-C", REPO, "worktree", "add", "--detach", wt, "HEAD"], stdout=subprocess.DEVNULL, stderr=subprocess.DEVNULL)
    subprocess.check_call(["rsync", "-a", "--delete", "--exclude", ".git", "--exclude", "replays", "/verif/", vc + "/"])
    env = dict(os.environ, PYTHONPATH=wt, XPLIQUE_REPO=wt, VERIF_SEED=os.environ.get("VERIF_SEED", "0"), TF_ENABLE_ONEDNN_OPTS="0", TF_CPP_MIN_LOG_LEVEL="3",
               CUDA_VISIBLE_DEVICES="", XPLIQUE_VERIF="1", PYTHONDONTWRITEBYTECODE="1")
    for name in names:
        meta = json.load(open(f"/verif/seeded/{name}/meta.json"))
        subprocess.call(["git", "-C", wt, "checkout", "--", "."])
        ap = subprocess.run(["git", "-C", wt, "apply", f"/verif/seeded/{name}/patch.diff"], capture_output=True, text=True)
        for prop in meta["checks"]:
            if ap.returncode != 0:
                rec = {"seed": name, "property": prop, "rc": "patch-does-not-apply"}
            else:
                t0 = time.time()
                try:
                    r = subprocess.run(["/venv/bin/python", "harness/run.py", prop, "quick"], cwd=vc, env=env, capture_output=True, text=True, timeout=2400)
                    rc = r.returncode
                    line = [l[:200] for l in (r.stdout + r.stderr).split("\n") if "VIOLATION" in l or "INFRA" in l][:2]
                except subprocess.TimeoutExpired:
                    rc, line = 124, ["timeout"]
                rec = {"seed": name, "property": prop, "rc": rc, "secs": round(time.time() - t0), "out": line}
            with open(f"{outdir}/results.jsonl", "a") as f:
                f.write(json.dumps(rec) + "\n")
    subprocess.call(["git", "-C", wt, "checkout", "--", "."])
    return k


def report(outdir):
    """summary: a stored seed counts as a regression when a check that its meta.json records as detecting it now exits 0"""
    rs = [json.loads(l) for l in open(f"{outdir}/results.jsonl")]
    bad = 0
    for r in rs:
        note = json.load(open(f"/verif/seeded/{r['seed']}/meta.json"))["checks"][r["property"]]
        expected_miss = note.startswith("MISSED") or note.startswith("not run")
        if r["rc"] != 1 and not expected_miss:
            bad += 1
            print("REGRESSION", r)
    print(f"{len(rs)} (seed, check) pairs re-run, {sum(r['rc'] == 1 for r in rs)} VIOLATION, {bad} regressions")


if __name__ == "__main__":
    if sys.argv[1] == "report":
        report(sys.argv[2]); sys.exit(0)
    workers, outdir = int(sys.argv[1]), sys.argv[2]
    flt = sys.argv[3] if len(sys.argv) > 3 else ""
    os.makedirs(outdir, exist_ok=True)
    names = sorted(n for n in os.listdir("/verif/seeded") if flt in n)
    done = set()
    if os.path.exists(f"{outdir}/results.jsonl"):
        done = {json.loads(l)["seed"] for l in open(f"{outdir}/results.jsonl")}
    names = [n for n in names if n not in done]
    with multiprocessing.Pool(workers) as p:
        p.map(worker, [(k, names[k::workers], outdir) for k in range(workers)])
