#!/usr/bin/env python3
"""Regenerate MANIFEST.json from tools/claims.json (one entry per claimed property)."""
import json, os
V = os.path.dirname(os.path.dirname(os.path.abspath(__file__)))
props = [json.loads(l) for l in open(os.path.join(V, "properties.jsonl"))]
claims = json.load(open(os.path.join(V, "tools", "claims.json")))
NOTE = ("Trusted: Lean 4.33 kernel (axioms propext, Classical.choice, Quot.sound only, audited per theorem on every run; "
        "thorough tier re-checks the module with leanchecker), the Python correspondence harness and AST translator, "
        "TensorFlow/NumPy/PyTorch/sklearn primitives as parameters of the model, float32 rounding idealised "
        "(exact lane arranged by data, tolerance lane bounded). ")
checks, na = [], []
for p in props:
    i = p["id"]
    if i in claims:
        c = claims[i]
        checks.append({
            "property_id": i, "quick_cmd": f"./check {i} quick", "thorough_cmd": f"./check {i} thorough",
            "evidence_file": f"evidence/{i}.json", "replay_cmd_template": f"./check {i} --replay {{path}}",
            "engine": "lean4-proof+correspondence",
            "level_claimed": {"category": "proof", "text": c["text"], "design_ref": c.get("design_ref", f"DESIGN.md 4/{i}")},
            "level_note": NOTE + c.get("note", ""),
            "technique": c.get("technique", "Lean 4 machine-checked proof about an executable model + model/implementation correspondence check")})
    else:
        na.append({"property_id": i, "reason": "check not built yet (build in progress; DESIGN.md 9 gives the order) - the technique applies, nothing is claimed until the check exists"})
m = {"version": 1, "setup_cmd": "./setup.sh",
     "hooks": {"guard": "XPLIQUE_VERIF",
               "enable": "no source hooks are needed: the harness observes the implementation through recording models and by wrapping static methods in-process; ./check exports XPLIQUE_VERIF=1 for completeness",
               "baseline_off_cmd": "cd /repo && /venv/bin/python -m pytest -ra -q -p no:cacheprovider --timeout=900 --continue-on-collection-errors",
               "source_commits": [], "add_only": True},
     "engines": [{"name": "lean4-proof+correspondence", "path": "lean/ + harness/", "serves_properties": sorted(claims),
                  "kind_free_text": "Lean 4 model + theorems (lake), compiled JSON-lines model driver, AST translator for scalar index arithmetic, Python correspondence harness calling the real xplique code in-process"}],
     "checks": checks, "not_applicable": na,
     "notes": "See DESIGN.md. known_findings.json lists recorded defects (KNOWN-FINDING lines) and the fix: commits made in /repo."}
json.dump(m, open(os.path.join(V, "MANIFEST.json"), "w"), indent=1)
print("claimed:", sorted(claims), "not yet:", [x["property_id"] for x in na])
