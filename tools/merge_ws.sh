#!/bin/bash
# tools/merge_ws.sh <workspace>: copy files that are NEW in a builder workspace, show diffs of shared files
W=$1
cd "$W" || exit 1
find lean/XpModel lean/XpDriver lean/XpProofs harness/props corpus -type f 2>/dev/null | grep -v "/Gen/" | while read f; do
  if [ ! -e "/verif/$f" ]; then mkdir -p "/verif/$(dirname $f)"; cp "$f" "/verif/$f"; echo "NEW $f";
  elif ! cmp -s "$f" "/verif/$f"; then echo "DIFF $f"; fi
done
for f in lean/Driver.lean harness/gen_arith.py harness/common.py known_findings.json; do
  if ! cmp -s "$f" "/verif/$f"; then echo "=== shared file differs: $f"; fi
done
