#!/bin/bash
# tools/seed_store3.sh <Cxx> <k> <short-name> '<checks json>' : keep a confirmed round-3 seeded change (from /tmp/mut3/out_<Cxx>)
id=$1; k=$2; name=$id-r3-$3; det=$4
python3 /verif/tools/seed_store.py /tmp/mut3/out_$id $k $name $id "$det" || exit 1
python3 - "$name" "/tmp/mut3/out_$id/notes$k.txt" <<'PY'
import json, sys
d = f"/verif/seeded/{sys.argv[1]}/meta.json"; m = json.load(open(d))
m["round"] = 3
try:
    m["summary"] = open(sys.argv[2]).read().strip().split("\n")[0][:300]
except Exception:
    m["summary"] = m["needs_to_manifest"][:200]
json.dump(m, open(d, "w"), indent=1)
PY
