#!/bin/bash
# tools/seed_batch.sh <round-dir-prefix e.g. /tmp/mut/out3_> <worktree> <verif-copy> <id>... : for each id and k in 1 2:
# confirm the demo (clean rc 0 / patched rc 1) in the worktree, then run the property's quick check on the patched worktree
PFX=$1; WT=$2; VC=$3; shift 3
for id in "$@"; do for k in 1 2; do
  d=$PFX$id; [ -f $d/change$k.diff ] || { echo "#### $id-$k missing"; continue; }
  git -C $WT checkout -- .
  (cd $WT && TF_ENABLE_ONEDNN_OPTS=0 PYTHONPATH=$WT timeout 1200 /venv/bin/python $d/demo$k.py >/dev/null 2>&1); c=$?
  git -C $WT apply $d/change$k.diff || echo "apply failed"
  (cd $WT && TF_ENABLE_ONEDNN_OPTS=0 PYTHONPATH=$WT timeout 1200 /venv/bin/python $d/demo$k.py >/dev/null 2>&1); m=$?
  git -C $WT checkout -- .
  echo "#### $id-$k demo clean=$c patched=$m"
  VERIF_COPY=$VC /verif/tools/seed_run.sh $WT $d/change$k.diff $id 2>&1 | tail -4
done; done
