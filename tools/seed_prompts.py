#!/usr/bin/env python3
"""tools/seed_prompts.py <round-dir>: write one TASK.md per property for a round of independent seeded-change authors
(each gets ONLY the property text, one-line summaries of earlier seeded changes, and a scratch worktree path)."""
import glob, json, os, subprocess, sys
root = sys.argv[1]
props = [json.loads(l) for l in open("/verif/properties.jsonl")]
prev = {}
for m in sorted(glob.glob("/verif/seeded/*/meta.json")):
    j = json.load(open(m)); prev.setdefault(j["breaks_property"], []).append(j.get("summary") or j["needs_to_manifest"][:160])
for p in props:
    i = p["id"]; wt = f"{root}/wt_{i}"; out = f"{root}/out_{i}"
    os.makedirs(out, exist_ok=True)
    if not os.path.isdir(wt):
        subprocess.check_call(["git", "-C", "/repo", "worktree", "add", "--detach", wt, "HEAD"], stdout=subprocess.DEVNULL, stderr=subprocess.DEVNULL)
    earlier = "\n".join(f"  - {s}" for s in prev.get(i, []))
    open(f"{out}/TASK.md", "w").write(f"""# Task: seed two realistic property-breaking changes into deel-ai/xplique

You work ONLY in the scratch git worktree `{wt}` (a checkout of deel-ai/xplique, a TensorFlow/PyTorch explainability
library) and write your results to `{out}/`. Never read or touch `/repo` or `/verif` (or anything else under /tmp/mut*
other than your own two directories).

## The property (this text is all you get about what must hold)

**{p['title']}**

{p['statement']}

Code the property is anchored in: {', '.join(p['anchors']['files'])}

## What to produce

TWO independent changes (change1, change2) to the library source under `{wt}/xplique/`, each of which
* **breaks the property above** (some clause of it) on some input / configuration / call sequence,
* still imports and runs, and **keeps the existing test-suite passing** (run the relevant test files:
  `cd {wt} && TF_ENABLE_ONEDNN_OPTS=0 PYTHONPATH={wt} /venv/bin/python -m pytest -q -p no:cacheprovider tests/<relevant files>`;
  note that in this environment (Keras 3) many tests already fail on the unchanged tree for unrelated reasons - a test
  counts only if it passes WITHOUT your change; the file /root/.vp/BASELINE.json lists the stable passing tests under "stable_pass"),
* looks like something a maintainer could plausibly write (a refactoring, an optimisation, a caching layer, a
  "simplification", a vectorisation, an off-by-one, a wrong axis, state kept across calls, two cooperating sites that each
  look fine alone ...), NOT a deliberate sabotage comment, and
* **needs something specific to manifest**: a particular multi-step sequence of calls on one object or several objects, an
  unusual-but-valid input (non-square image, batch size not dividing, ties, tiny/huge values, a rarely used option), a
  particular configuration, or two cooperating sites. A change that ordinary use exposes at once (every call wrong) is not wanted.

Earlier authors already produced these changes for this property - yours must be in a DIFFERENT function / clause /
mechanism from all of them:
{earlier}

For each change k in (1, 2) write:
* `{out}/change<k>.diff` - `git -C {wt} diff` of that change ALONE relative to the clean worktree (each diff must apply to a
  clean checkout by itself with `git apply`);
* `{out}/demo<k>.py` - a small stand-alone program, run as `cd {wt} && TF_ENABLE_ONEDNN_OPTS=0 PYTHONPATH={wt} /venv/bin/python {out}/demo<k>.py`,
  that exits 0 on the clean worktree and exits 1 (printing what differs) with the change applied. It must test the
  PROPERTY as stated (compare against an independently computed reference, or against an invariance the property states),
  not an implementation detail;
* `{out}/notes<k>.txt` - first line: a one-line summary (what was changed / what it needs to manifest); then what clause is
  broken, what exactly is needed to manifest, which test files you ran with the change applied and their result.

Leave the worktree CLEAN (`git -C {wt} checkout -- .`, no untracked files) when you finish. Confirm yourself, before
finishing, that each demo exits 0 clean and 1 patched.

## Environment facts
* Run python as `/venv/bin/python` with `PYTHONPATH={wt}`; never run it with the current directory inside `xplique/`
  (`xplique/types` would shadow the stdlib). TensorFlow import takes 20-80 s. No network.
* Keras 3 / TF 2.21: build models with the functional API (`tf.keras.Model(inp, out)`); `Sequential(...).input` does not exist.
  White-box methods also accept a plain Python function as model when an explicit operator is given.
* For PyTorch models use `xplique.wrappers.TorchWrapper`; set `torch.backends.mkldnn.enabled = False` (strided conv is
  unreliable on this CPU) and export `TF_ENABLE_ONEDNN_OPTS=0`.
* Keep each demo under ~3 minutes.
""")
    print(i, wt, out)
