#!/usr/bin/env python3
"""tools/seed_store.py <out_dir> <k> <seed-name> <property> <detected-by json> : keep a confirmed seeded change"""
import json, os, shutil, sys
out, k, name, prop, det = sys.argv[1:6]
d = f"/verif/seeded/{name}"
os.makedirs(d, exist_ok=True)
shutil.copy(f"{out}/change{k}.diff", f"{d}/patch.diff")
shutil.copy(f"{out}/demo{k}.py", f"{d}/demo.py")
notes = open(f"{out}/notes{k}.txt").read() if os.path.exists(f"{out}/notes{k}.txt") else ""
meta = {"breaks_property": prop, "source": "independent sub-agent given only the property text and a scratch worktree",
        "needs_to_manifest": notes.strip()[:1500],
        "confirmed": "demo.py exits 0 on the unchanged tree and 1 with patch.diff applied (run in a scratch worktree); "
                     "the author ran the relevant stable tests with the patch applied (see notes)",
        "checks": json.loads(det)}
json.dump(meta, open(f"{d}/meta.json", "w"), indent=1)
print("stored", d)
