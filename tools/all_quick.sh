#!/bin/bash
# tools/all_quick.sh <seed> [parallel]: every quick check on /repo as it is; one summary line per property
cd /verif; S=${1:-0}; P=${2:-5}
printf "%s\n" C01 C02 C03 C04 C05 C06 C07 C08 C09 C10 C11 C12 C13 C14 C15 C16 C17 C18 C19 C20 | \
  xargs -P $P -I{} bash -c 'out=$(VERIF_SEED='$S' ./check {} quick 2>&1); rc=$?; echo "{} rc=$rc $(echo "$out" | grep -E "^\[{}\]|VIOLATION|INFRA" | tr "\n" " " | cut -c1-260)"'
