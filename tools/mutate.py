#!/usr/bin/env python3
"""tools/mutate.py — systematic single-edit mutants of the anchored sources, run against the quick checks.

  mutate.py plan  <per-property-count> <seed> > plan.json     enumerate AST mutants of each property's primary files, sample
  mutate.py run   <plan.json> <workers> <outdir>               each worker: own scratch worktree of /repo + rsync copy of /verif;
                                                               apply one mutant, run `harness/run.py <id> quick`, record verdict
  mutate.py table <outdir>                                     summary (detected / survived per property and kind)

This is a measurement of the correspondence harness (generator quality), not a proof technique: survivors are triaged by
hand into equivalent mutants (property still holds) and gaps (strengthen the generator / predicate)."""
import ast, json, os, random, subprocess, sys, time, collections, multiprocessing

REPO = "/repo"
PRIMARY = {
 "C01": ["xplique/attributions/saliency.py", "xplique/attributions/gradient_input.py",
         "xplique/attributions/gradient_statistics/gradient_statistic.py", "xplique/attributions/gradient_statistics/smoothgrad.py",
         "xplique/attributions/gradient_statistics/square_grad.py", "xplique/attributions/gradient_statistics/vargrad.py"],
 "C02": ["xplique/commons/operators.py", "xplique/utils_functions/object_detection.py", "xplique/commons/operators_operations.py"],
 "C03": ["xplique/commons/tf_operations.py", "xplique/commons/operators_operations.py"],
 "C04": ["xplique/attributions/integrated_gradients.py"],
 "C05": ["xplique/attributions/global_sensitivity_analysis/gsa_attribution_method.py",
         "xplique/attributions/global_sensitivity_analysis/hsic_attribution_method.py",
         "xplique/attributions/global_sensitivity_analysis/sobol_attribution_method.py"],
 "C06": ["xplique/attributions/occlusion.py"],
 "C07": ["xplique/attributions/lime.py", "xplique/attributions/kernel_shap.py"],
 "C08": ["xplique/attributions/global_sensitivity_analysis/sobol_estimators.py",
         "xplique/attributions/global_sensitivity_analysis/replicated_designs.py",
         "xplique/attributions/global_sensitivity_analysis/hsic_estimators.py",
         "xplique/attributions/global_sensitivity_analysis/kernels.py",
         "xplique/attributions/global_sensitivity_analysis/perturbations.py"],
 "C09": ["xplique/attributions/rise.py"],
 "C10": ["xplique/attributions/grad_cam.py", "xplique/attributions/grad_cam_pp.py", "xplique/commons/model_override.py",
         "xplique/attributions/deconvnet.py", "xplique/attributions/guided_backpropagation.py"],
 "C11": ["xplique/wrappers/pytorch.py", "xplique/commons/callable_operations.py"],
 "C12": ["xplique/commons/data_conversion.py", "xplique/attributions/base.py"],
 "C13": ["xplique/attributions/base.py", "xplique/metrics/stability.py"],
 "C14": ["xplique/metrics/fidelity.py:CausalFidelity,Deletion,Insertion"],
 "C15": ["xplique/metrics/fidelity.py:MuFidelity", "xplique/metrics/stability.py"],
 "C16": ["xplique/example_based/search_methods/knn.py:BaseKNN,KNN", "xplique/example_based/search_methods/common.py",
         "xplique/example_based/datasets_operations/tf_dataset_operations.py", "xplique/example_based/datasets_operations/harmonize.py"],
 "C17": ["xplique/example_based/search_methods/knn.py:FilterKNN", "xplique/example_based/search_methods/kleor.py",
         "xplique/example_based/counterfactuals.py"],
 "C18": ["xplique/example_based/search_methods/proto_greedy_search.py", "xplique/example_based/search_methods/mmd_critic_search.py",
         "xplique/example_based/search_methods/proto_dash_search.py", "xplique/example_based/prototypes.py"],
 "C19": ["xplique/features_visualizations/objectives.py", "xplique/features_visualizations/preconditioning.py"],
 "C20": ["xplique/concepts/craft.py", "xplique/concepts/craft_torch.py"],
}
CALL_SWAP = {"reduce_sum": "reduce_mean", "reduce_mean": "reduce_sum", "reduce_max": "reduce_min", "reduce_min": "reduce_max",
             "min": "max", "max": "min", "ceil": "floor", "floor": "ceil", "argmax": "argmin", "argmin": "argmax",
             "greater": "greater_equal", "greater_equal": "greater", "less": "less_equal", "less_equal": "less",
             "maximum": "minimum", "minimum": "maximum", "sum": "mean", "mean": "sum", "zeros": "ones", "ones": "zeros",
             "zeros_like": "ones_like", "ones_like": "zeros_like", "argsort": "argsort", "cumsum": "cumprod"}
BIN = {ast.Add: "-", ast.Sub: "+", ast.Mult: "/", ast.Div: "*", ast.FloorDiv: "/", ast.Mod: "//"}
CMP = {ast.Lt: "<=", ast.LtE: "<", ast.Gt: ">=", ast.GtE: ">", ast.Eq: "!=", ast.NotEq: "=="}


def seg(lines, node):
    if node.lineno != node.end_lineno:
        return None
    return lines[node.lineno - 1][node.col_offset:node.end_col_offset]


def mutants_of(path, only=None):
    src = open(os.path.join(REPO, path)).read()
    lines = src.split("\n")
    tree = ast.parse(src)
    out = []
    doc = set()
    for n in ast.walk(tree):
        if isinstance(n, (ast.FunctionDef, ast.ClassDef, ast.Module)) and n.body and isinstance(n.body[0], ast.Expr) \
                and isinstance(getattr(n.body[0], "value", None), ast.Constant) and isinstance(n.body[0].value.value, str):
            doc.add(id(n.body[0].value))
    scopes = []
    if only:
        for n in tree.body:
            if isinstance(n, (ast.ClassDef, ast.FunctionDef)) and n.name in only:
                scopes.append((n.lineno, n.end_lineno))

    def inscope(n):
        return not only or any(a <= n.lineno <= b for a, b in scopes)

    def add(kind, line, c0, c1, new):
        old = lines[line - 1][c0:c1]
        if old != new:
            out.append({"file": path, "kind": kind, "line": line, "c0": c0, "c1": c1, "old": old, "new": new,
                        "text": lines[line - 1].strip()[:140]})
    skip_lines = set()
    for n in ast.walk(tree):
        if isinstance(n, (ast.Assert, ast.Raise, ast.Import, ast.ImportFrom)):
            for k in range(n.lineno, n.end_lineno + 1):
                skip_lines.add(k)
        if isinstance(n, ast.FunctionDef):      # decorators / annotations / defaults
            for k in range(n.lineno, n.body[0].lineno):
                skip_lines.add(k)
    for n in ast.walk(tree):
        if not hasattr(n, "lineno") or n.lineno in skip_lines or not inscope(n):
            continue
        if isinstance(n, ast.BinOp) and type(n.op) in BIN and n.left.end_lineno == n.right.lineno:
            l = n.left.end_lineno; between = lines[l - 1][n.left.end_col_offset:n.right.col_offset]
            sym = {ast.Add: "+", ast.Sub: "-", ast.Mult: "*", ast.Div: "/", ast.FloorDiv: "//", ast.Mod: "%"}[type(n.op)]
            k = between.find(sym)
            if k >= 0 and between.count(sym) == 1:
                add("binop", l, n.left.end_col_offset + k, n.left.end_col_offset + k + len(sym), BIN[type(n.op)])
        elif isinstance(n, ast.Compare) and len(n.ops) == 1 and type(n.ops[0]) in CMP and n.left.end_lineno == n.comparators[0].lineno:
            l = n.left.end_lineno; between = lines[l - 1][n.left.end_col_offset:n.comparators[0].col_offset]
            sym = {ast.Lt: "<", ast.LtE: "<=", ast.Gt: ">", ast.GtE: ">=", ast.Eq: "==", ast.NotEq: "!="}[type(n.ops[0])]
            k = between.find(sym)
            if k >= 0:
                add("cmp", l, n.left.end_col_offset + k, n.left.end_col_offset + k + len(sym), CMP[type(n.ops[0])])
        elif isinstance(n, ast.Constant) and id(n) not in doc and n.lineno == n.end_lineno and not isinstance(n.value, bool):
            if isinstance(n.value, int):
                v = n.value
                for new in ({0: [1], 1: [0, 2], -1: [-2, 0]}.get(v, [v + 1, v - 1])):
                    add("int", n.lineno, n.col_offset, n.end_col_offset, str(new))
            elif isinstance(n.value, float):
                add("float", n.lineno, n.col_offset, n.end_col_offset, repr(n.value * 2 if n.value else 1.0))
        elif isinstance(n, ast.Constant) and isinstance(n.value, bool) and n.lineno == n.end_lineno:
            add("bool", n.lineno, n.col_offset, n.end_col_offset, str(not n.value))
        elif isinstance(n, ast.Call):
            f = n.func
            if isinstance(f, ast.Attribute) and f.attr in CALL_SWAP and CALL_SWAP[f.attr] != f.attr and f.end_lineno == f.value.end_lineno:
                add("call", f.end_lineno, f.end_col_offset - len(f.attr), f.end_col_offset, CALL_SWAP[f.attr])
            elif isinstance(f, ast.Name) and f.id in CALL_SWAP and CALL_SWAP[f.id] != f.id:
                add("call", f.lineno, f.col_offset, f.end_col_offset, CALL_SWAP[f.id])
            if isinstance(f, ast.Attribute) and f.attr in ("abs", "stop_gradient", "relu") and len(n.args) == 1 and n.lineno == n.end_lineno:
                a = seg(lines, n.args[0])
                if a:
                    add("unwrap", n.lineno, n.col_offset, n.end_col_offset, "(" + a + ")")
        elif isinstance(n, ast.UnaryOp) and isinstance(n.op, (ast.USub, ast.Not)) and n.lineno == n.end_lineno \
                and not isinstance(n.operand, ast.Constant):
            a = seg(lines, n.operand)
            if a:
                add("unary", n.lineno, n.col_offset, n.end_col_offset, "(" + a + ")")
    return out


def plan(count, seed):
    rng = random.Random(seed)
    res = []
    for pid, specs in PRIMARY.items():
        ms = []
        for s in specs:
            path, _, only = s.partition(":")
            ms += mutants_of(path, set(only.split(",")) if only else None)
        bykind = collections.defaultdict(list)
        for m in ms:
            bykind[m["kind"]].append(m)
        for v in bykind.values():
            rng.shuffle(v)
        pick = []
        kinds = sorted(bykind)
        while len(pick) < count and any(bykind[k] for k in kinds):
            for k in kinds:
                if bykind[k] and len(pick) < count:
                    pick.append(bykind[k].pop())
        for j, m in enumerate(pick):
            m["property"] = pid; m["mid"] = f"{pid}-s{seed}-{j:02d}"
        res += pick
        print(pid, "pool", len(ms), "picked", len(pick), file=sys.stderr)
    return res


def apply(wt, m):
    p = os.path.join(wt, m["file"])
    lines = open(p).read().split("\n")
    ln = lines[m["line"] - 1]
    assert ln[m["c0"]:m["c1"]] == m["old"], (ln, m)
    lines[m["line"] - 1] = ln[:m["c0"]] + m["new"] + ln[m["c1"]:]
    open(p, "w").write("\n".join(lines))


def worker(args):
    k, items, outdir = args
    wt = f"{outdir}/wt_{k}"; vc = f"{outdir}/verif_{k}"
    if not os.path.isdir(wt):
        subprocess.check_call(["git", "-C", REPO, "worktree", "add", "--detach", wt, "HEAD"], stdout=subprocess.DEVNULL, stderr=subprocess.DEVNULL)
    subprocess.check_call(["rsync", "-a", "--delete", "--exclude", ".git", "--exclude", "replays", "/verif/", vc + "/"])
    env = dict(os.environ, PYTHONPATH=wt, XPLIQUE_REPO=wt, VERIF_SEED="0", TF_ENABLE_ONEDNN_OPTS="0", TF_CPP_MIN_LOG_LEVEL="3",
               CUDA_VISIBLE_DEVICES="", XPLIQUE_VERIF="1", PYTHONDONTWRITEBYTECODE="1")
    for m in items:
        subprocess.call(["git", "-C", wt, "checkout", "--", "."])
        apply(wt, m)
        t0 = time.time()
        try:
            r = subprocess.run(["/venv/bin/python", "harness/run.py", m["property"], "quick"], cwd=vc, env=env, capture_output=True,
                               text=True, timeout=1500)
            rc = r.returncode; lines = [l[:300] for l in (r.stdout + r.stderr).split("\n") if "VIOLATION" in l or "INFRA" in l or "KNOWN-FINDING" in l]
        except subprocess.TimeoutExpired:
            rc = 124; lines = ["timeout"]
        m2 = dict(m, rc=rc, secs=round(time.time() - t0), out=lines[:4])
        with open(f"{outdir}/results.jsonl", "a") as f:
            f.write(json.dumps(m2) + "\n")
    subprocess.call(["git", "-C", wt, "checkout", "--", "."])
    env2 = dict(env); env2["XPLIQUE_REPO"] = REPO
    return k


def run(planfile, workers, outdir):
    os.makedirs(outdir, exist_ok=True)
    items = json.load(open(planfile))
    done = set()
    if os.path.exists(f"{outdir}/results.jsonl"):
        done = {json.loads(l)["mid"] for l in open(f"{outdir}/results.jsonl")}
    items = [m for m in items if m["mid"] not in done]
    random.Random(1).shuffle(items)
    chunks = [(k, items[k::workers], outdir) for k in range(workers)]
    with multiprocessing.Pool(workers) as p:
        p.map(worker, chunks)


def table(outdir):
    rs = [json.loads(l) for l in open(f"{outdir}/results.jsonl")]
    byp = collections.defaultdict(lambda: [0, 0, 0])
    for r in rs:
        byp[r["property"]][0 if r["rc"] == 1 else (1 if r["rc"] == 0 else 2)] += 1
    for p in sorted(byp):
        print(p, "detected", byp[p][0], "survived", byp[p][1], "infra/timeout", byp[p][2])
    print("survivors:")
    for r in rs:
        if r["rc"] != 1:
            print(f'  {r["mid"]} rc={r["rc"]} {r["file"]}:{r["line"]} [{r["kind"]}] {r["old"]!r}->{r["new"]!r} | {r["text"]}')


if __name__ == "__main__":
    if sys.argv[1] == "plan":
        json.dump(plan(int(sys.argv[2]), int(sys.argv[3])), sys.stdout, indent=0)
    elif sys.argv[1] == "run":
        run(sys.argv[2], int(sys.argv[3]), sys.argv[4])
    elif sys.argv[1] == "table":
        table(sys.argv[2])
