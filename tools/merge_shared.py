#!/usr/bin/env python3
"""tools/merge_shared.py <workspace>: merge a builder workspace's edits of the shared files
(Driver.lean imports + dispatch lines, gen_arith.py additions before `def generate`, known findings)."""
import json, re, sys, difflib
W = sys.argv[1].rstrip("/")
V = "/verif"
# Driver.lean
a = open(f"{V}/lean/Driver.lean").read()
b = open(f"{W}/lean/Driver.lean").read()
imps = [l for l in b.splitlines() if l.startswith("import ") and l not in a.splitlines()]
disp = [l for l in b.splitlines() if re.match(r'\s*\| "[^"]+" => ', l) and l not in a.splitlines()]
lines = a.splitlines()
last_imp = max(i for i, l in enumerate(lines) if l.startswith("import "))
lines[last_imp + 1:last_imp + 1] = imps
bad = next(i for i, l in enumerate(lines) if l.strip().startswith('| _ => throw "bad-op"'))
lines[bad:bad] = disp
open(f"{V}/lean/Driver.lean", "w").write("\n".join(lines) + "\n")
print("Driver: +", imps, len(disp), "dispatch lines")
# gen_arith.py: blocks of added lines located before 'def generate'
a = open(f"{V}/harness/gen_arith.py").read().splitlines()
b = open(f"{W}/harness/gen_arith.py").read().splitlines()
sm = difflib.SequenceMatcher(None, a, b, autojunk=False)
added = []
for tag, i1, i2, j1, j2 in sm.get_opcodes():
    if tag in ("insert", "replace"):
        blk = b[j1:j2]
        if tag == "replace":
            # keep only lines that are not in /verif's version at all
            blk = [l for l in blk if l not in a]
        added.append((i1, blk))
# filter out blocks that only exist because /verif moved on (lines present in a but not in b are ignored)
gen_idx = next(i for i, l in enumerate(a) if l.startswith("def generate"))
ins = []  # NOTE: interleaves wrongly when both sides inserted before generate(); then merge the block by hand
for i1, blk in added:
    txt = [l for l in blk]
    if any(l.strip() for l in txt):
        ins.append((i1, txt))
if ins:
    print("gen_arith: blocks to insert:")
    out = a[:]
    off = 0
    for i1, blk in ins:
        pos = min(i1, gen_idx) + off if i1 <= gen_idx else i1 + off
        print("  at", i1, "lines", len(blk), "first:", next((l for l in blk if l.strip()), "")[:80])
        out[pos:pos] = blk
        off += len(blk)
    open(f"{V}/harness/gen_arith.py", "w").write("\n".join(out) + "\n")
# known findings
ka = json.load(open(f"{V}/known_findings.json"))
kb = json.load(open(f"{W}/known_findings.json"))
have = {(f["property"], f["clause"], f["signature"]) for f in ka["findings"]}
for f in kb["findings"]:
    if (f["property"], f["clause"], f["signature"]) not in have:
        ka["findings"].append(f)
        print("known finding +", f["property"], f["clause"], f["signature"])
json.dump(ka, open(f"{V}/known_findings.json", "w"), indent=1)
