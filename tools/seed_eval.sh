#!/bin/bash
# tools/seed_eval.sh <patch.diff> <id> [<id>...]: apply a seeded change to /repo, run the quick checks, undo.
P=$(readlink -f "$1"); shift
cd /repo || exit 2
if [ -n "$(git status --porcelain)" ]; then echo "repo not clean"; exit 2; fi
git apply "$P" || { echo "patch does not apply"; exit 2; }
trap 'git -C /repo checkout -- . ; python3 /verif/harness/gen_arith.py >/dev/null' EXIT
cd /verif
for id in "$@"; do
  out=$(VERIF_SEED=${VERIF_SEED:-0} ./check $id quick 2>&1); rc=$?
  echo "== $id rc=$rc"; echo "$out" | grep -E "VIOLATION|KNOWN-FINDING|INFRA|^\[$id\]" | cut -c1-300
done
