#!/usr/bin/env python3
"""regenerate DESIGN.md section 11.6 (per-property claims) from tools/claims.json and the evidence files"""
import json, os
c = json.load(open("/verif/tools/claims.json"))
out = ["### 11.6 What each check proves and how it is tied to the code (as built)\n",
       "Generated from `tools/claims.json` (the same text is `level_claimed.text` / `level_note` in MANIFEST.json). Obligation counts are those of the evidence files of the last run (non-private theorems + non-vacuity examples of `lean/XpProofs/Properties/<id>.lean`).\n"]
for i in sorted(c):
    n = "?"
    p = f"/verif/evidence/{i}.json"
    if os.path.exists(p):
        n = json.load(open(p))["coverage"].get("obligations", "?")
    out.append(f"**{i}** — {n} obligations. {c[i]['text']}\n")
    out.append(f"*Partial / assumed:* {c[i]['note']}\n")
txt = open("/verif/DESIGN.md").read()
a = txt.index("### 11.6 ")
b = txt.index("### 11.7 ") if "### 11.7 " in txt else len(txt)
open("/verif/DESIGN.md", "w").write(txt[:a] + "\n".join(out) + "\n" + txt[b:])
